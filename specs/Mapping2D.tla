------------------------------ MODULE Mapping2D ------------------------------
(***************************************************************************)
(* 3D -> 2D mapping (property C06): a structure is a sequence of residues  *)
(* in file order, the input is an arbitrary list of base-pair entries over *)
(* them, the outputs are the BPSEQ, the per-strand dot-bracket text and    *)
(* the extended dot-bracket rows.  Declarative definitions and the clauses *)
(* of C06 only; the implementation-shaped algorithm lives in MC_Mapping2D, *)
(* the judgement of recorded results in Trace_Mapping2D.                   *)
(*                                                                         *)
(*   residue  [chain, number, nuc, letter, conn, okey]                     *)
(*            chain  : integer id of the chain name                        *)
(*            nuc    : is a nucleotide                                     *)
(*            conn   : (nucleotides) O3'-P bonded to the NEXT NUCLEOTIDE   *)
(*                     of the file                                         *)
(*            okey   : rank of (chain name, number, icode) - the order in  *)
(*                     which residue identifiers compare                   *)
(*   entry    [a, b, lw, sa]  a, b = file index of the residue named, 0 =  *)
(*            names a residue absent from the structure; lw = one of the   *)
(*            18 Leontis-Westhof classes, seen from a; sa = Saenger or ""  *)
(***************************************************************************)
EXTENDS Bracket, TLC

\* ------------------------------------------------------------------ tables
LWSeq == << "cWW", "cWH", "cWS", "cHW", "cHH", "cHS", "cSW", "cSH", "cSS",
            "tWW", "tWH", "tWS", "tHW", "tHH", "tHS", "tSW", "tSH", "tSS" >>
LWSet == { LWSeq[k] : k \in 1..18 }
\* the same geometric class seen from the other nucleotide (edges swapped)
LWRev ==
  [ l \in LWSet |->
      CASE l = "cWW" -> "cWW" [] l = "cWH" -> "cHW" [] l = "cWS" -> "cSW"
        [] l = "cHW" -> "cWH" [] l = "cHH" -> "cHH" [] l = "cHS" -> "cSH"
        [] l = "cSW" -> "cWS" [] l = "cSH" -> "cHS" [] l = "cSS" -> "cSS"
        [] l = "tWW" -> "tWW" [] l = "tWH" -> "tHW" [] l = "tWS" -> "tSW"
        [] l = "tHW" -> "tWH" [] l = "tHH" -> "tHH" [] l = "tHS" -> "tSH"
        [] l = "tSW" -> "tWS" [] l = "tSH" -> "tHS" [] l = "tSS" -> "tSS" ]

LowerSeq == << "a","b","c","d","e","f","g","h","i","j","k","l","m",
               "n","o","p","q","r","s","t","u","v","w","x","y","z" >>
UpperSeq == << "A","B","C","D","E","F","G","H","I","J","K","L","M",
               "N","O","P","Q","R","S","T","U","V","W","X","Y","Z" >>
UpperMap == [ c \in { LowerSeq[k] : k \in 1..26 } |-> UpperSeq[CHOOSE k \in 1..26 : LowerSeq[k] = c] ]
Up(c)    == IF c \in DOMAIN UpperMap THEN UpperMap[c] ELSE c

\* canonical = Watson-Crick or wobble on the cis Watson-Crick/Watson-Crick class.
\* G-T is left undecided: the statement does not say, and the implementation answers
\* differently with and without a Saenger label (recorded as an observation, not judged).
SureLetters  == { <<"A","U">>, <<"U","A">>, <<"C","G">>, <<"G","C">>, <<"G","U">>, <<"U","G">>,
                  <<"A","T">>, <<"T","A">> }
MaybeLetters == SureLetters \cup { <<"G","T">>, <<"T","G">> }
\* Saenger labels an entry may carry on a canonical pair (XIX = C-G, XX = A-U/A-T, XXVIII = G-U/G-T)
CanonSaenger == { "XIX", "XX", "XXVIII" }

Max0(x)   == IF x > 0 THEN x ELSE 0
Rep(c, n) == [x \in 1..n |-> c]
SeqSet(s) == { s[k] : k \in 1..Len(s) }
RECURSIVE Concat(_)
Concat(ss) == IF ss = <<>> THEN <<>> ELSE Head(ss) \o Concat(Tail(ss))

\* ------------------------------------------------------------------ demonstration structure
\* chain 1: G1 C2 (water 3) G5 ; chain 2: U1.  C2 is not bonded to G5: two numbers are missing.
\* Used by the design model and by the exhaustive entry-list family of the generator.
DemoShape ==
  << [chain |-> 1, number |-> 1, ic |-> 0, nuc |-> TRUE,  letter |-> "G", conn |-> TRUE],
     [chain |-> 1, number |-> 2, ic |-> 0, nuc |-> TRUE,  letter |-> "C", conn |-> FALSE],
     [chain |-> 1, number |-> 3, ic |-> 0, nuc |-> FALSE, letter |-> "X", conn |-> FALSE],
     [chain |-> 1, number |-> 5, ic |-> 0, nuc |-> TRUE,  letter |-> "G", conn |-> FALSE],
     [chain |-> 2, number |-> 1, ic |-> 0, nuc |-> TRUE,  letter |-> "U", conn |-> FALSE] >>
DemoNuc == { k \in 1..Len(DemoShape) : DemoShape[k].nuc }

\* ------------------------------------------------------------------ numbering
\* number of "?" placeholders between consecutive nucleotides p, k (file indices)
PH(res, gaps, p, k) ==
  IF gaps /\ res[p].chain = res[k].chain /\ ~res[p].conn
  THEN Max0(res[k].number - res[p].number - 1) ELSE 0

\* one pass over the file: sequence with placeholders, BPSEQ index of every residue (0 = none)
RECURSIVE Walk(_, _, _, _)
Walk(res, gaps, k, acc) ==
  IF k > Len(res) THEN acc
  ELSE IF ~res[k].nuc THEN Walk(res, gaps, k + 1, [acc EXCEPT !.ridx = Append(@, 0)])
  ELSE LET ph == IF acc.prev = 0 THEN 0 ELSE PH(res, gaps, acc.prev, k)
           s  == acc.seq \o Rep("?", ph) \o << res[k].letter >>
       IN Walk(res, gaps, k + 1, [seq |-> s, ridx |-> Append(acc.ridx, Len(s)), prev |-> k])
Numbering(res, gaps) == Walk(res, gaps, 1, [seq |-> <<>>, ridx |-> <<>>, prev |-> 0])

\* the same thing said without a loop (lemma NumberingLemma in MC_Mapping2D: both agree)
NucUpTo(res, k) == { p \in 1..k : res[p].nuc }
PrevNuc(res, k) == LET S == NucUpTo(res, k - 1) IN IF S = {} THEN 0 ELSE Max(S)
RECURSIVE SumOverSet(_, _)
SumOverSet(S, g) == IF S = {} THEN 0 ELSE LET x == CHOOSE y \in S : TRUE IN g[x] + SumOverSet(S \ {x}, g)
IndexDecl(res, gaps, k) ==
  IF ~res[k].nuc THEN 0
  ELSE LET S == NucUpTo(res, k) IN
       Cardinality(S) + SumOverSet(S, [q \in S |-> IF PrevNuc(res, q) = 0 THEN 0 ELSE PH(res, gaps, PrevNuc(res, q), q)])

\* ------------------------------------------------------------------ input pairs
\* entries that can be encoded at all: both residues present, nucleotides, different
Encodable(res, e) == /\ e.a \in 1..Len(res) /\ e.b \in 1..Len(res) /\ e.a # e.b
                     /\ res[e.a].nuc /\ res[e.b].nuc
\* positional normal form <<lo, hi, class seen from lo>> in FILE indices; an entry and its
\* reversed duplicate have the same normal form ("distinct input pair")
NF(e) == IF e.a < e.b THEN <<e.a, e.b, e.lw>> ELSE <<e.b, e.a, LWRev[e.lw]>>
DistinctPairs(res, entries) == { NF(entries[k]) : k \in { x \in 1..Len(entries) : Encodable(res, entries[x]) } }

Letters2(res, t) == << Up(res[t[1]].letter), Up(res[t[2]].letter) >>
\* certainly canonical / possibly canonical, as a set of normal forms
SureCanon(res, entries) ==
  { NF(entries[k]) : k \in { x \in 1..Len(entries) :
       /\ Encodable(res, entries[x]) /\ entries[x].lw = "cWW"
       /\ Letters2(res, NF(entries[x])) \in SureLetters
       /\ entries[x].sa \in CanonSaenger \cup {""} } }
MaybeCanon(res, entries) ==
  { NF(entries[k]) : k \in { x \in 1..Len(entries) :
       /\ Encodable(res, entries[x])
       /\ \/ entries[x].sa \in CanonSaenger
          \/ entries[x].sa = "" /\ entries[x].lw = "cWW" /\ Letters2(res, NF(entries[x])) \in MaybeLetters } }

Share(t, u)  == {t[1], t[2]} \cap {u[1], u[2]} # {}
SamePair(t, u) == t[1] = u[1] /\ t[2] = u[2]

\* ------------------------------------------------------------------ BPSEQ clauses
\* E = sequence of <<index, letter, pair>>
BpPairs(E) == { <<E[i][1], E[i][3]>> : i \in { x \in 1..Len(E) : E[x][3] > E[x][1] } }
PosPair(ridx, t) == << ridx[t[1]], ridx[t[2]] >>

NumberingOK(nb, E)  == /\ Len(E) = Len(nb.seq)
                       /\ \A i \in 1..Len(E) : E[i][1] = i /\ E[i][2] = nb.seq[i]
PairRangeOK(E)      == \A i \in 1..Len(E) : E[i][3] \in 0..Len(E) /\ E[i][3] # i
SymmetricOK(E)      == \A i \in 1..Len(E) : E[i][3] # 0 => E[E[i][3]][3] = i
AtMostOnePartnerOK(E) ==
  LET P == { i \in 1..Len(E) : E[i][3] # 0 } IN Cardinality({ E[i][3] : i \in P }) = Cardinality(P)
FromCanonicalOK(res, entries, nb, E) ==
  BpPairs(E) \subseteq { PosPair(nb.ridx, t) : t \in MaybeCanon(res, entries) }
KeepsUnconflictedOK(res, entries, nb, E) ==
  LET M == MaybeCanon(res, entries) IN
  \A t \in SureCanon(res, entries) :
     (\A u \in M : SamePair(t, u) \/ ~Share(t, u)) => PosPair(nb.ridx, t) \in BpPairs(E)

\* ------------------------------------------------------------------ strands
\* strands = sequence of [chain, seq]; they tile the BPSEQ sequence, and every residue inside a
\* strand belongs to the chain the strand is named after
StrandStart(strands, s) == 1 + Len(Concat([t \in 1..(s - 1) |-> strands[t].seq]))
StrandsConcatOK(nb, strands) == Concat([s \in 1..Len(strands) |-> strands[s].seq]) = nb.seq
StrandChainsOK(res, nb, strands) ==
  \A k \in 1..Len(res) : nb.ridx[k] # 0 =>
     \E s \in 1..Len(strands) :
        /\ nb.ridx[k] \in StrandStart(strands, s)..(StrandStart(strands, s) + Len(strands[s].seq) - 1)
        /\ strands[s].chain = res[k].chain

\* text pieces (one per strand) against the strands and a set of index pairs
PiecesFitOK(strands, pieces) ==
  /\ Len(pieces) = Len(strands)
  /\ \A s \in 1..Len(strands) : Len(pieces[s]) = Len(strands[s].seq)
TextEncodes(text, pairs) == LET d == Decode(text) IN d.balanced /\ d.pairs = pairs

\* ------------------------------------------------------------------ extended rows
\* rows = sequence of [lw, text] (text = the row over the whole sequence).
\* ObsLabels / InLabels: classes under which one index pair is written / was given.
RowPairs(rows) == [ r \in 1..Len(rows) |-> Decode(rows[r].text).pairs ]
ExtRowsBalancedLenOK(n, rows) ==
  \A r \in 1..Len(rows) : Len(rows[r].text) = n /\ AlphabetOK(rows[r].text) /\ Decode(rows[r].text).balanced

\* The class label of a row is read with the opening bracket as the first nucleotide.  Where the
\* order of the residue identifiers agrees with the file order that reading is demanded; where the
\* two orders disagree the statement does not say from which nucleotide the class is seen, and
\* either reading is accepted (consistently for that residue pair).
ExtEncodesEachOnceOK(res, entries, nb, rows) ==
  LET RP  == RowPairs(rows)
      DP  == DistinctPairs(res, entries)
      In  == { << nb.ridx[t[1]], nb.ridx[t[2]], t[3], res[t[1]].okey < res[t[2]].okey >> : t \in DP }
      PP  == { <<u[1], u[2]>> : u \in In } \cup UNION { RP[r] : r \in 1..Len(rows) }
  IN /\ \A r \in 1..Len(rows) : rows[r].lw \in LWSet
     /\ \A r1 \in 1..Len(rows) : \A r2 \in 1..Len(rows) :
           r1 < r2 /\ rows[r1].lw = rows[r2].lw => RP[r1] \cap RP[r2] = {}
     /\ \A p \in PP :
           LET inl   == { u[3] : u \in { v \in In : v[1] = p[1] /\ v[2] = p[2] } }
               agree == \A v \in In : (v[1] = p[1] /\ v[2] = p[2]) => v[4]
               obs   == { rows[r].lw : r \in { x \in 1..Len(rows) : p \in RP[x] } }
           IN obs = inl \/ (~agree /\ obs = { LWRev[l] : l \in inl })

\* ------------------------------------------------------------------ the algorithm's pieces
\* (shared by the design model and by the named deviation of the trace specification)

\* pair lifting: every entry whose residues exist is kept once, followed by its reverse
Bp(e)     == [a |-> e.a, b |-> e.b, lw |-> e.lw, sa |-> e.sa]
BpRev(e)  == [a |-> e.b, b |-> e.a, lw |-> LWRev[e.lw], sa |-> e.sa]
Found(res, e) == e.a \in 1..Len(res) /\ e.b \in 1..Len(res)
LiftOne(res, lifted, e) ==
  IF ~Found(res, e) THEN lifted
  ELSE LET l1 == IF Bp(e) \in SeqSet(lifted) THEN lifted ELSE Append(lifted, Bp(e))
       IN IF BpRev(e) \in SeqSet(l1) THEN l1 ELSE Append(l1, BpRev(e))
RECURSIVE LiftFrom(_, _, _, _)
LiftFrom(res, entries, k, lifted) ==
  IF k > Len(entries) THEN lifted ELSE LiftFrom(res, entries, k + 1, LiftOne(res, lifted, entries[k]))
Lift(res, entries) == LiftFrom(res, entries, 1, <<>>)

\* lower-identifier-first orientation (the filter nt1 < nt2)
LowFirst(res, b) == res[b.a].okey < res[b.b].okey

\* greedy row placement of the pairs of one class.  rows = sequence of sequences of pairs.
\* policy "two_rows": first row greedily, everything else into ONE second row (as implemented);
\* policy "until_placed": first row that has both nucleotides free, new row when none has.
FreeIn(row, b) == \A x \in 1..Len(row) : {row[x].a, row[x].b} \cap {b.a, b.b} = {}
PlaceOne(policy, rows, b) ==
  IF policy = "two_rows" THEN
       IF rows = <<>> THEN << <<b>> >>
       ELSE IF FreeIn(rows[1], b) THEN [rows EXCEPT ![1] = Append(@, b)]
       ELSE IF Len(rows) = 1 THEN Append(rows, <<b>>)
       ELSE [rows EXCEPT ![2] = Append(@, b)]
  ELSE LET ok == { r \in 1..Len(rows) : FreeIn(rows[r], b) } IN
       IF ok = {} THEN Append(rows, <<b>>) ELSE [rows EXCEPT ![Min(ok)] = Append(@, b)]
RECURSIVE PlaceFrom(_, _, _, _, _, _)
PlaceFrom(policy, res, lifted, lw, k, rows) ==
  IF k > Len(lifted) THEN rows
  ELSE PlaceFrom(policy, res, lifted, lw, k + 1,
                 IF lifted[k].lw = lw /\ LowFirst(res, lifted[k])
                 THEN PlaceOne(policy, rows, lifted[k]) ELSE rows)
RowsOfClass(policy, res, lifted, lw) == PlaceFrom(policy, res, lifted, lw, 1, <<>>)

RowIsMatching(row) == \A x \in 1..Len(row) : \A y \in 1..Len(row) :
                         x < y => {row[x].a, row[x].b} \cap {row[y].a, row[y].b} = {}

\* a row written into a fresh BPSEQ pair column: the last writer of a cell wins; a pair with a
\* residue that has no BPSEQ index (not a nucleotide) is skipped
RECURSIVE WriteFrom(_, _, _, _)
WriteFrom(ridx, row, k, f) ==
  IF k > Len(row) THEN f
  ELSE LET i == ridx[row[k].a]  j == ridx[row[k].b] IN
       WriteFrom(ridx, row, k + 1, IF i = 0 \/ j = 0 THEN f ELSE [f EXCEPT ![i] = j, ![j] = i])
LastWriter(n, ridx, row) == WriteFrom(ridx, row, 1, [i \in 1..n |-> 0])
\* the 5'->3' entries of such a column, and the skeleton of the text written from them: every
\* entry writes an opening bracket at its index and a closing one at its partner, in index order,
\* so an opening bracket always survives
Entries5(f)   == { <<i, f[i]>> : i \in { x \in DOMAIN f : f[x] > x } }
Skeleton(n, f) ==
  [ p \in 1..n |-> IF f[p] > p THEN "(" ELSE IF \E i \in 1..(p - 1) : f[i] = p THEN ")" ELSE Dot ]
SkeletonOf(text) ==
  [ p \in 1..Len(text) |-> IF IsOpen(text[p]) THEN "(" ELSE IF IsClose(text[p]) THEN ")" ELSE text[p] ]
\* the closing bracket at j belongs to the entry with the largest index among those pointing to j
ClosersTyped(text, f) ==
  \A j \in DOMAIN f : (f[j] <= j /\ \E i \in 1..(j - 1) : f[i] = j) =>
     LET i == Max({ x \in 1..(j - 1) : f[x] = j }) IN
     IsOpen(text[i]) /\ IsClose(text[j]) /\ TypeOf(text[i]) = TypeOf(text[j])

=============================================================================
