SPECIFICATION Spec
CONSTANT MaxSerial = 6
CONSTANT MaxRes = 3
CONSTANT ChainIds <- Ids3
CONSTANT ChainPalette <- ChainPal4
CONSTANT ResPalette <- ResPal4
CONSTANT MaxAtoms = 4
CONSTANT IcodeFillnaRaises = FALSE
CONSTANT RenameCollides = FALSE
INVARIANT LemmaExists
INVARIANT LemmaMustFit
INVARIANT InvFitsOrValueError
INVARIANT InvIdentityWhenFits
INVARIANT InvFitted
INVARIANT InvTerSerialFree
INVARIANT InvChecksVsExistence
CHECK_DEADLOCK FALSE
