--------------------------- MODULE Trace_AtomTable ---------------------------
(***************************************************************************)
(* Trace validation for the structure readers (C08, C15).  One TLC state   *)
(* per recorded case; every judgement is made here.                        *)
(*                                                                         *)
(* C08 cases (c.lines = the abstract table, c.fmt = "pdb" | "cif"):        *)
(*   kind "read":  read_3d_structure(file, req) -> c.err, c.res            *)
(*   kind "parse": parse_pdb / parse_cif        -> c.err, c.atoms (flat,   *)
(*                 all models; the spec groups them per model)             *)
(* C15 cases:                                                              *)
(*   kind "agree": the same single-model table written as PDB and as mmCIF *)
(*                 and read by both reader generations -> c.reads          *)
(***************************************************************************)
EXTENDS AtomTable, Json, IOUtils

CONSTANT Family      \* "C08" | "C15"

Doc   == JsonDeserialize(IOEnv.TRACE_FILE)
Trace == Doc.cases

VARIABLES idx, cnt
vars == <<idx, cnt>>

\* ------------------------------------------------------------------ C08
L0(c) == c.lines

HasAbsentOcc(L) == \E i \in Idx(L) : L[i].occ < 0

\* answered atoms of a parse case, grouped per model by the spec
FlatOfModel(c, m) == SelectSeq(c.atoms, LAMBDA a : a.m = m)
RECURSIVE GroupFlatFrom(_, _, _)
GroupFlatFrom(A, n, acc) ==
  IF n > Len(A) THEN acc
  ELSE LET a == A[n]
           rec == [an |-> a.an, x |-> a.x, y |-> a.y, z |-> a.z]
           same == n > 1 /\ <<A[n - 1].ch, A[n - 1].num, A[n - 1].ic, A[n - 1].rn, A[n - 1].lab>>
                            = <<a.ch, a.num, a.ic, a.rn, a.lab>> IN
       IF same THEN GroupFlatFrom(A, n + 1, [acc EXCEPT ![Len(acc)].atoms = Append(@, rec)])
       ELSE GroupFlatFrom(A, n + 1, Append(acc, [m |-> a.m, ch |-> a.ch, num |-> a.num, ic |-> a.ic,
                                                  rn |-> a.rn, lab |-> a.lab, atoms |-> <<rec>>]))
GroupFlat(A) == GroupFlatFrom(A, 1, <<>>)

\* first broken clause of a case on table L (checkNull: is the NullMarkers clause evaluated)
ReadBroken(c, L, checkNull) == FirstBroken(L, c.fmt, c.req, c.res, checkNull)

ParseBroken(c, L, checkNull) ==
  LET ms == Models(L)
      stray == \E n \in 1..Len(c.atoms) : c.atoms[n].m \notin ms
      bad == { m \in ms : FirstBroken(L, c.fmt, m, GroupFlat(FlatOfModel(c, m)), checkNull) # "ok" } IN
  IF stray THEN "NeverAnotherModel"
  ELSE IF bad = {} THEN "ok"
  ELSE FirstBroken(L, c.fmt, Min(bad), GroupFlat(FlatOfModel(c, Min(bad))), checkNull)

Broken(c, L, checkNull) == IF c.kind = "read" THEN ReadBroken(c, L, checkNull) ELSE ParseBroken(c, L, checkNull)

C08Failing(c) ==
  IF c.err # "" THEN (IF HasAbsentOcc(L0(c)) THEN "NullMarkers" ELSE "NoException")
  ELSE Broken(c, L0(c), TRUE)

(***************************************************************************)
(* Named deviations: each explains EXACTLY the behaviour of one understood *)
(* defect of the code, by running the reader pipeline of AtomTable with    *)
(* the corresponding variant switch set to its as-implemented value.       *)
(***************************************************************************)
\* the flat answer the pipeline predicts for a parse case
FlatRec(L, fmt, i) == [m |-> L[i].m, ch |-> L[i].ch, num |-> L[i].num, ic |-> L[i].ic, rn |-> L[i].rn,
                       lab |-> (IF fmt = "cif" THEN LabelOf(L[i]) ELSE <<>>),
                       an |-> L[i].an, x |-> L[i].x, y |-> L[i].y, z |-> L[i].z]
PipelineExplains(c, wm, perModel) ==
  LET L == L0(c) IN
  /\ ~HasAbsentOcc(L)
  /\ PipelineDeterministic(L, wm, perModel)
  /\ LET p == Pipeline(L, c.fmt, IF c.kind = "read" THEN c.req ELSE 0, wm, perModel, TRUE) IN
     /\ p.err = ""
     /\ IF c.kind = "read" THEN c.res = p.res
        ELSE c.atoms = [n \in 1..Len(p.kept) |-> FlatRec(L, c.fmt, p.kept[n])]

\* icode '.' kept as a literal: the answer is right for the table whose absent icodes read "."
DotTable(L) == [i \in Idx(L) |-> IF L[i].ic = "" /\ L[i].icn = "." THEN [L[i] EXCEPT !.ic = "."] ELSE L[i]]

C08Deviation(c, f) ==
  LET L == L0(c) IN
  IF c.err # "" THEN
       IF c.fmt = "cif" /\ c.err = "ValueError" /\ \E i \in Idx(L) : L[i].occ < 0 /\ L[i].ocn = "?"
       THEN "OccupancyQuestionMarkRaises"
       ELSE IF c.fmt = "cif" /\ c.err = "TypeError" /\ ~(\E i \in Idx(L) : L[i].occ < 0 /\ L[i].ocn = "?")
               /\ Dedupe(L, FALSE, FALSE).err = "TypeError"
       THEN "UnknownOccupancyCompared"
       ELSE ""
  ELSE IF f = "NullMarkers" THEN
       IF c.fmt = "cif" /\ (\E i \in Idx(L) : L[i].ic = "" /\ L[i].icn = ".")
          /\ Broken(c, DotTable(L), FALSE) = "ok"
       THEN "IcodeDotKept" ELSE ""
  ELSE IF Cardinality(Models(L)) < 2 THEN ""
  ELSE IF PipelineExplains(c, FALSE, TRUE)  THEN "ModelsMergedByDedup"
  ELSE IF PipelineExplains(c, TRUE, FALSE)  THEN "ClashAcrossModels"
  ELSE IF PipelineExplains(c, FALSE, FALSE) THEN "ModelsMergedByDedup"
  ELSE ""

C08Verdict(c) ==
  IF ~InDomain(L0(c), IF c.kind = "read" THEN c.req ELSE 0) THEN <<"skip">>
  ELSE LET f == C08Failing(c) IN
       IF f = "ok" THEN <<"ok">>
       ELSE LET d == C08Deviation(c, f) IN
            IF d # "" THEN <<"deviation", d, f>> ELSE <<"fail", f, c.kind>>

\* ------------------------------------------------------------------ C15
ReadFailing(L, X, checkNull) ==
  IF X.err # "" THEN (IF HasAbsentOcc(L) THEN "NullMarkers" ELSE "NoException")
  ELSE IF checkNull /\ ~NullMarkersAbsent(X.res) THEN "NullMarkers"
  ELSE IF ~SameResidues(L, X.res) THEN "SameResidues"
  ELSE IF ~SameAtomsAndCoords(L, X.res) THEN "SameAtomsAndCoords"
  ELSE IF X.gen = 1 /\ ~ConnectivityAnswersOK(L, SeqSet(X.queried), SeqSet(X.conn)) THEN "SameConnectivity"
  ELSE IF X.gen = 2 /\ ~(SegmentPairsOK(L, SeqSet(X.conn)) /\ Len(X.conn) = Cardinality(SeqSet(X.conn)))
       THEN "SameConnectivity"
  ELSE "ok"

ChiOf(X, id) == { X.chi[n].v : n \in { k \in 1..Len(X.chi) : X.chi[k].id = id } }
ChiIds(X)    == { X.chi[n].id : n \in 1..Len(X.chi) }
ChiAgree(R) ==
  \A a, b \in 1..Len(R) : \A id \in ChiIds(R[a]) \cap ChiIds(R[b]) :
     \A u \in ChiOf(R[a], id) : \A v \in ChiOf(R[b], id) : Abs(Abs(u) - Abs(v)) <= 10
\* residues whose |chi| was compared between at least two readings
ChiCompared(R) == Cardinality({ id \in UNION { ChiIds(R[a]) : a \in 1..Len(R) } :
                                  Cardinality({ a \in 1..Len(R) : id \in ChiIds(R[a]) }) >= 2 })

\* ChiCoverage: a nucleotide with a standard name that holds the four atoms of its glycosidic torsion has a
\* chi in every reading - the residue-level model computes it for every such residue, the table-level model
\* for those it lists in a connected segment
PurineNames == {"A", "G", "DA", "DG"}
PyrimidineNames == {"C", "U", "T", "DC", "DT"}
AtomNamesOf(L, id) == { L[i].an : i \in { j \in Idx(L) : ResId(L[j]) = id } }
NameOfRes(L, id) == L[FirstLine(L, id)].rn
NeedsChi(L, id) ==
  LET rn == NameOfRes(L, id)  an == AtomNamesOf(L, id) IN
  \/ rn \in PurineNames /\ {"O4'", "C1'", "N9", "C4"} \subseteq an
  \/ rn \in PyrimidineNames /\ {"O4'", "C1'", "N1", "C2"} \subseteq an
InSegment(X, id) == \E p \in SeqSet(X.conn) : p[1] = id \/ p[2] = id
ChiCoverage(L, R) ==
  \A a \in 1..Len(R) : \A id \in ResIds(L) :
     (NeedsChi(L, id) /\ (R[a].gen = 1 \/ InSegment(R[a], id))) => id \in ChiIds(R[a])

AgreeFailing(c, L, checkNull) ==
  LET R == c.reads
      bad == { a \in 1..Len(R) : ReadFailing(L, R[a], checkNull) # "ok" } IN
  IF bad # {} THEN <<ReadFailing(L, R[Min(bad)], checkNull), R[Min(bad)].name>>
  \* a consecutive pair exactly 2.4 A apart: every reading answers it the same way
  ELSE IF \E ab \in OnSpherePairs(L) : \E x, y \in 1..Len(R) :
             (ab \in SeqSet(R[x].conn)) # (ab \in SeqSet(R[y].conn)) THEN <<"SameConnectivity", "boundary">>
  ELSE IF ~ChiAgree(R) THEN <<"SameChiMagnitude", "chi">>
  ELSE IF ~ChiCoverage(L, R) THEN <<"SameChiMagnitude", "coverage">>
  ELSE <<"ok", "">>

\* the same defects of the residue-level reader, seen through C15
C15Deviation(c, f) ==
  LET L == L0(c)  R == c.reads
      others == { a \in 1..Len(R) : ~(R[a].gen = 1 /\ R[a].fmt = "cif") }
      v1c == { a \in 1..Len(R) : R[a].gen = 1 /\ R[a].fmt = "cif" } IN
  IF \E a \in others : ReadFailing(L, R[a], TRUE) # "ok" THEN ""
  ELSE IF f[1] = "NullMarkers" /\ (\A a \in v1c : R[a].err = "ValueError")
          /\ \E i \in Idx(L) : L[i].occ < 0 /\ L[i].ocn = "?"
       THEN "OccupancyQuestionMarkRaises"
  ELSE IF f[1] = "NullMarkers" /\ (\A a \in v1c : R[a].err = "")
          /\ (\E i \in Idx(L) : L[i].ic = "" /\ L[i].icn = ".")
          /\ (\A a \in v1c : ReadFailing(DotTable(L), R[a], FALSE) = "ok")
       THEN "IcodeDotKept"
  ELSE ""

\* repeated atom records: agreement of the readings with each other (see DupDomain)
TableAtoms(L, k) == { AtomRec(L[i]) : i \in { j \in Idx(L) : ResKey(L[j]) = k } }
DupReadFailing(L, X) ==
  IF X.err # "" THEN "NoException"
  ELSE IF ~NullMarkersAbsent(X.res) THEN "NullMarkers"
  ELSE IF ~SameResidues(L, X.res) THEN "SameResidues"
  ELSE IF \E r \in 1..Len(X.res) :
            LET T == TableAtoms(L, <<X.res[r].ch, X.res[r].num, X.res[r].ic, X.res[r].rn>>) IN
            \/ ~(AtomSetOf(X.res[r]) \subseteq T)
            \/ { a.an : a \in AtomSetOf(X.res[r]) } # { a.an : a \in T }
       THEN "SameAtomsAndCoords"
  ELSE IF X.gen = 1 /\ ~(Adjacent(L) \subseteq SeqSet(X.queried)) THEN "SameConnectivity"
  ELSE "ok"
DupFailing(c, L) ==
  LET R == c.reads
      bad == { a \in 1..Len(R) : DupReadFailing(L, R[a]) # "ok" } IN
  IF bad # {} THEN <<DupReadFailing(L, R[Min(bad)]), R[Min(bad)].name>>
  ELSE IF \E ab \in Adjacent(L) : \E x, y \in 1..Len(R) :
             (ab \in SeqSet(R[x].conn)) # (ab \in SeqSet(R[y].conn)) THEN <<"SameConnectivity", "repeated-records">>
  ELSE IF ~ChiAgree(R) THEN <<"SameChiMagnitude", "repeated-records">>
  ELSE <<"ok", "">>

C15Verdict(c) ==
  IF DupDomain(L0(c)) THEN
       LET f == DupFailing(c, L0(c)) IN IF f[1] = "ok" THEN <<"ok">> ELSE <<"fail", f[1], f[2]>>
  ELSE IF ~AgreeDomain(L0(c)) THEN <<"skip">>
  ELSE LET f == AgreeFailing(c, L0(c), TRUE) IN
       IF f[1] = "ok" THEN <<"ok">>
       ELSE LET d == C15Deviation(c, f) IN
            IF d # "" THEN <<"deviation", d, f[1]>> ELSE <<"fail", f[1], f[2]>>

\* ------------------------------------------------------------------ dispatch
Verdict(c) == IF Family = "C08" THEN C08Verdict(c) ELSE C15Verdict(c)

Init == idx = 0 /\ cnt = [ok |-> 0, deviation |-> 0, fail |-> 0, skip |-> 0, chi |-> 0]

Next ==
  /\ idx < Len(Trace)
  /\ idx' = idx + 1
  /\ LET c == Trace[idx']  v == Verdict(c)
         kind == IF v[1] = "skip" THEN "ok" ELSE v[1] IN
     /\ cnt' = [cnt EXCEPT ![kind] = @ + 1,
                           !.skip = @ + (IF v[1] = "skip" THEN 1 ELSE 0),
                           !.chi = @ + (IF Family = "C15" /\ v[1] = "ok" THEN ChiCompared(c.reads) ELSE 0)]
     \* "skip" = outside the domain on which the statement is unambiguous (informative line)
     /\ (v[1] = "ok" \/ PrintT(<<"V", c.id>> \o v))
  \* extras: cases skipped, |chi| comparisons decided
  /\ (idx' < Len(Trace) \/ PrintT(<<"SUMMARY", Len(Trace), cnt'.ok, cnt'.deviation, cnt'.fail, cnt'.skip, cnt'.chi>>))

Spec == Init /\ [][Next]_vars
=============================================================================
