--------------------------- MODULE MC_ReadersAgree ---------------------------
(***************************************************************************)
(* Design-level model for C15: the two reader generations, action by       *)
(* action, on EVERY single-model, single-conformer file of up to MaxLines  *)
(* lines over a palette of backbone atoms (O3', P) on points that are      *)
(* 1.6 A (bonded), 2.41 A (not bonded) and far apart.                      *)
(*                                                                         *)
(* residue-level reader (rnapolis.parser + tertiary.Residue3D):            *)
(*   V1Read        the C08 pipeline (Dedupe, ClashFilter, SelectModel,     *)
(*                 Group) with the Required switches                       *)
(*   V1Connect     Residue3D.is_connected asked for every ordered pair     *)
(* table-level reader (parser_v2 + tertiary_v2.Structure):                 *)
(*   V2Parse       rows -> data frame (null markers decoded to None)       *)
(*   V2GroupBy     DataFrame.groupby((chain, number, icode), dropna=False):*)
(*                 groups come out SORTED, the absent icode last           *)
(*   V2SortChain   connected_residues sorts a chain by (number, icode or "")*)
(*   V2SegmentStep one iteration of the segment loop (extend / close)      *)
(*   V2Flush       the last segment; segments of one residue are dropped   *)
(* Clauses of AtomTable part 4 are the invariants (ReadersAgree).          *)
(*                                                                         *)
(* Seeded design variants (negative controls; NOT defects of the code):    *)
(*   V2SortUsesIcode = FALSE  the chain sort ignores the insertion code    *)
(*   V2BondMilli = 2415       the bond threshold of one reader drifts      *)
(***************************************************************************)
EXTENDS AtomTable

CONSTANTS MaxLines, KeyIds, PointIds, V2SortUsesIcode, V2BondMilli

\* 1-2: 1.600 A, 1-3: 2.410 A, 2-3: 2.893 A, 4: far away, 5: 1.600 A from 3 and 2.410 A from 2, 6: 1.600 A from 2
PointXYZ == << [x |-> 0, y |-> 0, z |-> 0], [x |-> 1600, y |-> 0, z |-> 0],
               [x |-> 0, y |-> 2410, z |-> 0], [x |-> 300, y |-> -500, z |-> 9000],
               [x |-> 1600, y |-> 2410, z |-> 0], [x |-> 3200, y |-> 0, z |-> 0] >>
\* <<residue number, insertion code, atom name>>
KeyPalette == << <<1, "", "O3'">>, <<1, "", "P">>, <<2, "", "P">>, <<2, "", "O3'">>, <<2, "A", "P">>, <<3, "", "P">> >>

Line(k, p) ==
  [m |-> 1, het |-> 0, ch |-> "A", num |-> KeyPalette[k][1], ic |-> KeyPalette[k][2], rn |-> "G",
   an |-> KeyPalette[k][3], alt |-> "", occ |-> 100, x |-> PointXYZ[p].x, y |-> PointXYZ[p].y, z |-> PointXYZ[p].z,
   lch |-> "A", lnum |-> KeyPalette[k][1] * 2 + (IF KeyPalette[k][2] = "" THEN 0 ELSE 1), lrn |-> "G",
   icn |-> "?", ocn |-> "?"]
Palette == { Line(k, p) : k \in KeyIds, p \in PointIds }

VARIABLES file, pc,
          res1, conn1,          \* residue-level reader: residues, pairs answered "connected"
          groups, sorted, si, seg, segs, res2, conn2   \* table-level reader
vars == <<file, pc, res1, conn1, groups, sorted, si, seg, segs, res2, conn2>>

Init == /\ file = <<>> /\ pc = "write" /\ res1 = <<>> /\ conn1 = {} /\ groups = <<>> /\ sorted = <<>>
        /\ si = 1 /\ seg = <<>> /\ segs = <<>> /\ res2 = <<>> /\ conn2 = {}

WriteLine(a) ==
  /\ pc = "write" /\ Len(file) < MaxLines
  \* only well-formed prefixes: every atom once, on its own point, residues in ascending order
  /\ \A i \in Idx(file) : AtomKey(file[i]) # AtomKey(a) /\ ~SamePoint(file[i], a)
  /\ Len(file) > 0 => ~Before(ResId(a), ResId(file[Len(file)]))
  /\ file' = Append(file, a)
  /\ UNCHANGED <<pc, res1, conn1, groups, sorted, si, seg, segs, res2, conn2>>

Close ==
  /\ pc = "write" /\ Len(file) > 0 /\ AgreeDomain(file)
  /\ pc' = "v1read"
  /\ UNCHANGED <<file, res1, conn1, groups, sorted, si, seg, segs, res2, conn2>>

\* ------------------------------------------------------------------ residue-level reader
V1Read ==
  /\ pc = "v1read"
  /\ res1' = Pipeline(file, "pdb", 0, TRUE, TRUE, TRUE).res
  /\ pc' = "v1conn"
  /\ UNCHANGED <<file, conn1, groups, sorted, si, seg, segs, res2, conn2>>

IdOf(r) == <<r.ch, r.num, r.ic>>
FindAtom(r, an) == { r.atoms[a] : a \in { b \in 1..Len(r.atoms) : r.atoms[b].an = an } }
IsConnected(r, s, limit) == \E o \in FindAtom(r, "O3'") : \E p \in FindAtom(s, "P") : Closer(o, p, limit)

V1Connect ==
  /\ pc = "v1conn"
  /\ conn1' = { <<IdOf(res1[a]), IdOf(res1[b])>> : a, b \in 1..Len(res1) } \cap
              { ab \in { <<IdOf(res1[a]), IdOf(res1[b])>> : a, b \in 1..Len(res1) } :
                   \E a, b \in 1..Len(res1) : a # b /\ ab = <<IdOf(res1[a]), IdOf(res1[b])>>
                                              /\ IsConnected(res1[a], res1[b], BondMilli) }
  /\ pc' = "v2parse"
  /\ UNCHANGED <<file, res1, groups, sorted, si, seg, segs, res2, conn2>>

\* ------------------------------------------------------------------ table-level reader
\* group keys sorted as pandas sorts them: number, then icode with the absent value LAST
GroupBefore(a, b) == a[2] < b[2] \/ (a[2] = b[2] /\ a[3] # b[3] /\ (b[3] = "" \/ (a[3] # "" /\ IcodeRank(a[3]) < IcodeRank(b[3]))))
ResOf(id) == LET rows == SelectSeq(file, LAMBDA l : ResId(l) = id) IN
             [ch |-> id[1], num |-> id[2], ic |-> id[3], rn |-> rows[1].rn,
              atoms |-> [n \in 1..Len(rows) |-> AtomRec(rows[n])]]

V2GroupBy ==
  /\ pc = "v2parse"
  /\ groups' = SetToSortSeq(ResIds(file), GroupBefore)
  /\ pc' = "v2sort"
  /\ UNCHANGED <<file, res1, conn1, sorted, si, seg, segs, res2, conn2>>

\* list.sort is stable: residues with equal sort keys stay in group order
SortKeyBefore(a, b) == a[2] < b[2] \/ (V2SortUsesIcode /\ a[2] = b[2] /\ IcodeRank(a[3]) < IcodeRank(b[3]))
Pos(s, e) == CHOOSE n \in 1..Len(s) : s[n] = e
V2SortChain ==
  /\ pc = "v2sort"
  /\ res2' = [n \in 1..Len(groups) |-> ResOf(groups[n])]
  /\ sorted' = SetToSortSeq({ groups[n] : n \in 1..Len(groups) },
                            LAMBDA a, b : SortKeyBefore(a, b) \/ (~SortKeyBefore(b, a) /\ Pos(groups, a) < Pos(groups, b)))
  /\ pc' = "v2seg" /\ si' = 1 /\ seg' = <<>> /\ segs' = <<>>
  /\ UNCHANGED <<file, res1, conn1, groups, conn2>>

V2SegmentStep ==
  /\ pc = "v2seg" /\ si <= Len(sorted)
  /\ LET r == ResOf(sorted[si]) IN
     IF seg = <<>> THEN seg' = <<r>> /\ UNCHANGED segs
     ELSE IF IsConnected(seg[Len(seg)], r, V2BondMilli) THEN seg' = Append(seg, r) /\ UNCHANGED segs
     ELSE /\ segs' = (IF Len(seg) > 1 THEN Append(segs, seg) ELSE segs)
          /\ seg' = <<r>>
  /\ si' = si + 1
  /\ UNCHANGED <<file, pc, res1, conn1, groups, sorted, res2, conn2>>

V2Flush ==
  /\ pc = "v2seg" /\ si > Len(sorted)
  /\ LET all == IF Len(seg) > 1 THEN Append(segs, seg) ELSE segs IN
     /\ segs' = all
     /\ conn2' = UNION { { <<IdOf(all[s][n]), IdOf(all[s][n + 1])>> : n \in 1..(Len(all[s]) - 1) } : s \in 1..Len(all) }
  /\ pc' = "done"
  /\ UNCHANGED <<file, res1, conn1, groups, sorted, si, seg, res2>>

Next == \/ \E a \in Palette : WriteLine(a)
        \/ Close \/ V1Read \/ V1Connect \/ V2GroupBy \/ V2SortChain \/ V2SegmentStep \/ V2Flush
Spec == Init /\ [][Next]_vars

\* ---------------------------------------------------------------- invariants (clauses of C15)
Done == pc = "done"
Strip(res) == [r \in 1..Len(res) |-> [ch |-> res[r].ch, num |-> res[r].num, ic |-> res[r].ic, rn |-> res[r].rn,
                                      atoms |-> res[r].atoms]]
AllPairs == { ab \in ResIds(file) \X ResIds(file) : ab[1] # ab[2] }

SameResiduesInv       == Done => SameResidues(file, Strip(res1)) /\ SameResidues(file, res2)
SameAtomsAndCoordsInv == Done => SameAtomsAndCoords(file, Strip(res1)) /\ SameAtomsAndCoords(file, res2)
SameConnectivityInv   == Done => ConnectivityAnswersOK(file, AllPairs, conn1) /\ SegmentPairsOK(file, conn2)
\* the two generations agree with each other on consecutive residues
ReadersAgree          == Done => /\ RKeys(Strip(res1)) = RKeys(res2)
                                 /\ conn2 = conn1 \cap Adjacent(file)
=============================================================================
