#!/bin/sh
# tools/tryseed.sh <patch.diff> <demo.py> <PID> [more PIDs...]
# Applies a seeded change to /repo, runs the demonstration and the quick checks, and undoes it.
patch="$1"; demo="$2"; shift 2
cd /repo || exit 2
git diff --quiet || { echo "/repo has uncommitted changes"; exit 2; }
echo "== demo on unchanged tree"; RNAPOLIS_SRC=/repo/src /venv/bin/python "$demo" >/dev/null 2>&1; echo "demo exit=$?"
git apply "$patch" || { echo "patch does not apply"; exit 2; }
echo "== demo with change"; RNAPOLIS_SRC=/repo/src /venv/bin/python "$demo" >/dev/null 2>&1; echo "demo exit=$?"
for pid in "$@"; do
  echo "== ./check $pid --tier ${TIER:-quick}"
  (cd /verif && ./check "$pid" --tier "${TIER:-quick}" 2>&1 | grep -E "VIOLATION|KNOWN-FINDING|MACHINERY|^\[" | head -${LINES_SHOWN:-4})
done
git -C /repo checkout -- .
git -C /repo status --short | head -3
