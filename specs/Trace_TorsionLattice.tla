------------------------- MODULE Trace_TorsionLattice -------------------------
(***************************************************************************)
(* Trace validation for C18.  One TLC state per recorded case; a case is    *)
(* what the REAL code returned (integer micro-radians) for one input.       *)
(*                                                                         *)
(*  kind "lat":  an integer lattice 4-tuple p.  The spec computes the exact *)
(*               cell itself (IUPACCell(p)); recorded: both implementations *)
(*               and the harness measurer on p, reversed p, mirrored p.     *)
(*  kind "phi":  four points built by the harness with prescribed torsion   *)
(*               phi (integer micro-radians), bond lengths (milli-A), bond   *)
(*               angles (micro-radians), random rigid motion.               *)
(*  kind "tor":  one backbone / chi torsion of one corpus residue through    *)
(*               both code paths, with the coordinates each path holds.      *)
(*  kind "aform": per corpus file, the chi columns of C3'-endo residues.     *)
(*                                                                         *)
(* t1 = rnapolis.tertiary (calculate_torsion_angle_coords / torsion_angle / *)
(* Residue3D.chi), v2 = rnapolis.tertiary_v2 (calculate_torsion_angle /     *)
(* Structure.torsion_angles), ref = the harness's own measurer (validated   *)
(* here on the lattice, then trusted as the oracle for corpus coordinates). *)
(*                                                                         *)
(* Named deviation V2TorsionSignFlipped: the v2 value is, within Tol, the   *)
(* NEGATION of the required angle (and therefore of the tertiary.py value), *)
(* still satisfies the symmetry laws, and the required angle is not a fixed *)
(* point of negation.  Anything else that v2 does wrong is a fail.          *)
(***************************************************************************)
EXTENDS TorsionLattice, Json, IOUtils, TLC

CONSTANTS Tol,       \* micro-radians: recording resolution for lattice cases
          TolPhi,    \* micro-radians: constructed-phi and corpus cases
          MaxCoord,  \* lattice radius accepted for "lat" cases
          MinARows   \* an "aform" table must contain at least this many A-form residues

Doc   == JsonDeserialize(IOEnv.TRACE_FILE)
Trace == Doc.cases

VARIABLES idx, cnt
vars == <<idx, cnt>>

SeqToSet(s) == { s[k] : k \in 1..Len(s) }
ToPts(p) == <<<<p[1][1], p[1][2], p[1][3]>>, <<p[2][1], p[2][2], p[2][3]>>,
              <<p[3][1], p[3][2], p[3][3]>>, <<p[4][1], p[4][2], p[4][3]>>>>

\* ------------------------------------------------------------------ one implementation, one input
\* first failing clause of observation t against "the original-order value lies where `where(v)` says"
\* where = a predicate on the value given as a boolean already evaluated lazily below
ObsSanity(t) == IF ~AllDefined(t) THEN "Defined" ELSE IF ~AllInRange(t) THEN "InRange" ELSE "ok"
Symmetry(t, tol) == IF ~ReversalKeepsV(t, tol) THEN "ReversalKeeps"
                    ELSE IF ~MirrorNegatesV(t, tol) THEN "MirrorNegates" ELSE "ok"

\* ------------------------------------------------------------------ kind "lat"
LatVerdict(c) ==
  LET p == ToPts(c.p) IN
  IF \E i \in 1..4, j \in 1..3 : p[i][j] \notin -MaxCoord..MaxCoord THEN <<"fail", "InputOnLattice", "harness">>
  ELSE LET P == Params(p) IN
  IF ~NonDegP(P) THEN <<"fail", "InputNonDegenerate", "harness">>
  ELSE IF ~AxisGapOKP(P) THEN <<"fail", "InputAxisGap", "harness">>
  ELSE LET k == CellP(P)  far == FarFromDiagonalP(P) IN
  \* the harness measurer must itself be exact on the lattice (it is the corpus oracle)
  IF ObsSanity(c.ref) # "ok" \/ ~LatticeOctantV(k, c.ref, Tol, far) \/ Symmetry(c.ref, Tol) # "ok"
    THEN <<"fail", "MeasurerLatticeOctant", "harness">>
  ELSE IF ObsSanity(c.t1) # "ok" THEN <<"fail", ObsSanity(c.t1), "tertiary">>
  ELSE IF ~LatticeOctantV(k, c.t1, Tol, far) THEN <<"fail", "LatticeOctant", "tertiary">>
  ELSE IF Symmetry(c.t1, Tol) # "ok" THEN <<"fail", Symmetry(c.t1, Tol), "tertiary">>
  ELSE IF ObsSanity(c.v2) # "ok" THEN <<"fail", ObsSanity(c.v2), "tertiary_v2">>
  ELSE IF LatticeOctantV(k, c.v2, Tol, far) THEN
         (IF Symmetry(c.v2, Tol) # "ok" THEN <<"fail", Symmetry(c.v2, Tol), "tertiary_v2">>
          ELSE IF ~ImplsAgreeV(c.t1, c.v2, Tol) THEN <<"fail", "ImplsAgree", "tertiary_v2">>
          ELSE <<"ok">>)
  ELSE IF /\ ~FixedCell(k)
          /\ InCell(NegCell(k), c.v2.o.v, Tol, far)
          /\ NegatedOf(c.v2.o.v, c.t1.o.v, Tol)
          /\ Symmetry(c.v2, Tol) = "ok"
       THEN <<"deviation", "V2TorsionSignFlipped", "LatticeOctant">>
  ELSE <<"fail", "LatticeOctant", "tertiary_v2">>

\* ------------------------------------------------------------------ kind "phi"
PhiVerdict(c) ==
  IF ~(-PiU <= c.phi /\ c.phi <= PiU) THEN <<"fail", "InputPhiRange", "harness">>
  ELSE IF \E i \in 1..3 : c.len[i] < 800 \/ c.len[i] > 2500 THEN <<"fail", "InputBondLength", "harness">>
  ELSE IF \E i \in 1..2 : c.ang[i] < DegU(20) \/ c.ang[i] > DegU(160) THEN <<"fail", "InputBondAngle", "harness">>
  \* the construction is checked by the lattice-validated measurer
  ELSE IF ObsSanity(c.ref) # "ok" \/ ~ConstructedPhiV(c.phi, c.ref, TolPhi) \/ Symmetry(c.ref, TolPhi) # "ok"
    THEN <<"fail", "ConstructionSelfCheck", "harness">>
  ELSE IF ObsSanity(c.t1) # "ok" THEN <<"fail", ObsSanity(c.t1), "tertiary">>
  ELSE IF ~ConstructedPhiV(c.phi, c.t1, TolPhi) THEN <<"fail", "ConstructedPhi", "tertiary">>
  ELSE IF Symmetry(c.t1, TolPhi) # "ok" THEN <<"fail", Symmetry(c.t1, TolPhi), "tertiary">>
  ELSE IF ObsSanity(c.v2) # "ok" THEN <<"fail", ObsSanity(c.v2), "tertiary_v2">>
  ELSE IF ConstructedPhiV(c.phi, c.v2, TolPhi) THEN
         (IF Symmetry(c.v2, TolPhi) # "ok" THEN <<"fail", Symmetry(c.v2, TolPhi), "tertiary_v2">>
          ELSE IF ~ImplsAgreeV(c.t1, c.v2, 2 * TolPhi) THEN <<"fail", "ImplsAgree", "tertiary_v2">>
          ELSE <<"ok">>)
  ELSE IF /\ NegatedOf(c.v2.o.v, c.phi, TolPhi)
          /\ NegatedOf(c.v2.o.v, c.t1.o.v, 2 * TolPhi)
          /\ Symmetry(c.v2, TolPhi) = "ok"
       THEN <<"deviation", "V2TorsionSignFlipped", "ConstructedPhi">>
  ELSE <<"fail", "ConstructedPhi", "tertiary_v2">>

\* ------------------------------------------------------------------ kind "tor"
\* c.angle in TorsionNames; c.atoms = the <<name, offset>> quadruple the harness used;
\* c.t1 / c.v2 = [present, res, xyz, ref]  (ref = harness measurer on the path's own xyz);
\* c.cls = library's chi_class ("anti" | "syn" | "none"), only meaningful for chi on path t1
PathFail(x) ==
  IF ~x.present THEN "ok"
  ELSE IF ~Defined(x.ref) THEN "RefDefined"
  ELSE IF ~Defined(x.res) THEN "Defined"
  ELSE IF ~InRangeU(x.res.v) THEN "InRange"
  ELSE IF Dist(x.res.v, x.ref.v) > TolPhi THEN "CorpusTorsion"
  ELSE "ok"

IsChi(c) == c.angle = "chiR" \/ c.angle = "chiY"

TorVerdict(c) ==
  \* the torsion table must have exactly one row per residue of the library's own connected segments
  IF c.angle = "rows" THEN <<"fail", "TableRowPerResidue", "tertiary_v2">>
  ELSE IF c.angle \notin TorsionNames THEN <<"fail", "InputAngleName", "harness">>
  ELSE IF c.atoms # TorsionDef[c.angle] THEN <<"fail", "AtomsPerIUPAC", "harness">>
  ELSE IF PathFail(c.t1) = "RefDefined" \/ PathFail(c.v2) = "RefDefined" THEN <<"fail", "RefDefined", "harness">>
  \* a residue lacking one of the four glycosidic atoms has no chi: a number there is not the glycosidic torsion
  ELSE IF IsChi(c) /\ ~c.t1.present /\ c.t1.asked /\ (~c.t1.undef \/ c.cls # "none")
       THEN <<"fail", "ChiOnlyFromGlycosidicAtoms", "tertiary">>
  ELSE IF IsChi(c) /\ ~c.v2.present /\ c.v2.asked /\ ~c.v2.undef
       THEN <<"fail", "ChiOnlyFromGlycosidicAtoms", "tertiary_v2">>
  \* every one of the four atoms occurs once in the first model: both code paths have no choice of coordinates
  ELSE IF c.single /\ c.t1.present /\ c.v2.present /\ c.t1.xyz # c.v2.xyz THEN <<"fail", "SameAtomsBothPaths", "tertiary_v2">>
  ELSE IF PathFail(c.t1) # "ok" THEN <<"fail", PathFail(c.t1), "tertiary">>
  \* A-form chi (about -160 degrees) must be classified anti
  ELSE IF c.t1.present /\ IsChi(c) /\ AFormChi(c.t1.ref.v) /\ c.cls # "anti" THEN <<"fail", "AFormChiAnti", "chi_class">>
  ELSE IF PathFail(c.v2) \notin {"ok", "CorpusTorsion"} THEN <<"fail", PathFail(c.v2), "tertiary_v2">>
  ELSE IF PathFail(c.v2) = "CorpusTorsion" THEN
         (IF /\ NegatedOf(c.v2.res.v, c.v2.ref.v, TolPhi)
             /\ (c.t1.present /\ c.t1.xyz = c.v2.xyz => NegatedOf(c.v2.res.v, c.t1.res.v, 2 * TolPhi))
          THEN <<"deviation", "V2TorsionSignFlipped", IF IsChi(c) THEN "ChiTablesAgree" ELSE "CorpusTorsion">>
          ELSE <<"fail", "CorpusTorsion", "tertiary_v2">>)
  \* both paths hold the same four coordinates: the tables must agree
  ELSE IF c.t1.present /\ c.v2.present /\ c.t1.xyz = c.v2.xyz /\ Dist(c.t1.res.v, c.v2.res.v) > 2 * TolPhi
       THEN <<"fail", IF IsChi(c) THEN "ChiTablesAgree" ELSE "ImplsAgree", "tertiary_v2">>
  ELSE <<"ok">>

\* ------------------------------------------------------------------ kind "aform"
\* Per RNA corpus file and per code path a table of rows <<delta_ref, chi_ref, chi>>: delta and
\* chi measured by the lattice-validated measurer on the coordinates THAT path holds, and the
\* chi the path's table reports.  The A-form residues are those the measurer finds C3'-endo
\* with chi in the A window.  Statement: in every table the library produces their chi is anti,
\* about -160 degrees.
ARows(rows) == { k \in 1..Len(rows) : C3EndoDelta(rows[k][1]) /\ AFormChi(rows[k][2]) }
CRows(rows) == { k \in 1..Len(rows) : C3EndoDelta(rows[k][1]) }
Near(v, w)  == Dist(v, w) <= 2 * TolPhi
\* nature anchors the convention: in A-form RNA most C3'-endo residues have chi about -160
AFormPresent(rows) == 3 * Cardinality(ARows(rows)) >= 2 * Cardinality(CRows(rows)) /\ Cardinality(ARows(rows)) >= MinARows
AFormTableOK(rows)  == \A k \in ARows(rows) : AFormChi(rows[k][3]) \/ Near(rows[k][3], rows[k][2])
AFormTableNeg(rows) == \A k \in ARows(rows) : NegatedOf(rows[k][3], rows[k][2], 2 * TolPhi)
AformVerdict(c) ==
  IF ~AFormPresent(c.rows1) \/ ~AFormPresent(c.rows2) THEN <<"fail", "AFormPresent", "harness">>
  ELSE IF ~AFormTableOK(c.rows1) THEN <<"fail", "AFormChiAnti", "tertiary">>
  ELSE IF AFormTableOK(c.rows2) THEN <<"ok">>
  ELSE IF AFormTableNeg(c.rows2) THEN <<"deviation", "V2TorsionSignFlipped", "AFormChiAnti">>
  ELSE <<"fail", "AFormChiAnti", "tertiary_v2">>

\* ------------------------------------------------------------------ kind "stem"
\* The inter-stem torsion of Mapping2D3D.calculate_inter_stem_parameters (a user of the torsion function):
\* c.dist = the four endpoint distances (milli-A), c.ref[t] = the measurer's dihedral over the four base-pair
\* centroids documented for endpoint type t, c.fwd / c.rev = what the library reports for (stem i, stem j) and
\* for (stem j, stem i).  The reported type is a closest endpoint pair, the reported angle is the IUPAC
\* dihedral of that type's four points, and - reversing the four points keeps a dihedral - swapping the two
\* stems swaps 5' and 3' in the type and keeps the angle.
StemTypes == {"cs55", "cs53", "cs35", "cs33"}
SwapType(t) == CASE t = "cs53" -> "cs35" [] t = "cs35" -> "cs53" [] OTHER -> t
MinDist(c) == LET D == { c.dist[t] : t \in StemTypes } IN CHOOSE d \in D : \A e \in D : d <= e
StemSide(c, x, who) ==
  IF x.err # "" THEN <<"fail", "StemTorsionDefined", who>>
  ELSE IF x.type \notin StemTypes THEN <<"fail", "StemTypeKnown", who>>
  ELSE <<"ok">>
StemVerdict(c) ==
  IF \E t \in StemTypes : ~Defined(c.ref[t]) THEN <<"ok">>                   \* degenerate centroids: not judged
  ELSE IF StemSide(c, c.fwd, "forward")[1] # "ok" THEN StemSide(c, c.fwd, "forward")
  ELSE IF StemSide(c, c.rev, "swapped")[1] # "ok" THEN StemSide(c, c.rev, "swapped")
  ELSE IF c.dist[c.fwd.type] > MinDist(c) + 1 THEN <<"fail", "StemClosestEndpoints", "forward">>
  ELSE IF c.dist[SwapType(c.rev.type)] > MinDist(c) + 1 THEN <<"fail", "StemClosestEndpoints", "swapped">>
  ELSE IF ~Defined(c.fwd.res) \/ ~InRangeU(c.fwd.res.v) THEN <<"fail", "InRange", "inter-stem">>
  ELSE IF Dist(c.fwd.res.v, c.ref[c.fwd.type].v) > TolPhi THEN <<"fail", "InterStemTorsion", "forward">>
  ELSE IF ~Defined(c.rev.res) \/ Dist(c.rev.res.v, c.ref[SwapType(c.rev.type)].v) > TolPhi
       THEN <<"fail", "InterStemTorsion", "swapped (reversal keeps the value)">>
  ELSE <<"ok">>

\* ------------------------------------------------------------------ dispatch
Verdict(c) ==
  IF c.kind = "lat" THEN LatVerdict(c)
  ELSE IF c.kind = "phi" THEN PhiVerdict(c)
  ELSE IF c.kind = "tor" THEN TorVerdict(c)
  ELSE IF c.kind = "aform" THEN AformVerdict(c)
  ELSE IF c.kind = "stem" THEN StemVerdict(c)
  ELSE <<"fail", "UnknownKind", "harness">>

\* cases in which the required angle is not a fixed point of negation (sign-sensitive)
SignSensitive(c) ==
  IF c.kind = "lat" THEN LET P == Params(ToPts(c.p)) IN NonDegP(P) /\ ~FixedCell(CellP(P))
  ELSE IF c.kind = "phi" THEN Dist(c.phi, 0) > TolPhi /\ Dist(c.phi, PiU) > TolPhi
  ELSE TRUE

Init == idx = 0 /\ cnt = [ok |-> 0, deviation |-> 0, fail |-> 0, sens |-> 0]

Next ==
  /\ idx < Len(Trace)
  /\ idx' = idx + 1
  /\ LET c == Trace[idx']  v == Verdict(c) IN
     /\ cnt' = [cnt EXCEPT ![v[1]] = @ + 1, !.sens = @ + (IF SignSensitive(c) THEN 1 ELSE 0)]
     /\ (v[1] = "ok" \/ PrintT(<<"V", c.id>> \o v))
  /\ (idx' < Len(Trace) \/ PrintT(<<"SUMMARY", Len(Trace), cnt'.ok, cnt'.deviation, cnt'.fail, cnt'.sens>>))

Spec == Init /\ [][Next]_vars
=============================================================================
