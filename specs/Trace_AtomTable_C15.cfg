SPECIFICATION Spec
CONSTANT Family = "C15"
CHECK_DEADLOCK FALSE
