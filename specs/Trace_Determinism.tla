--------------------------- MODULE Trace_Determinism ---------------------------
(***************************************************************************)
(* Trace validation for C14.  One TLC state per recorded case.  A case is  *)
(* ALL observations of one artefact for one input:                         *)
(*   [id, input, artefact, shape ("text" | "list"), expect (= processes x  *)
(*    repetitions), obs |-> << [proc, seed, rep, err, digest, items], .. >>]*)
(* proc  = the interpreter process that made the observation (fresh        *)
(*         /venv/bin/python with its own PYTHONHASHSEED),                  *)
(* rep   = 1, 2: repeated call inside that process (fresh objects),        *)
(* err   = exception type name ("" = none),                                *)
(* digest= sha-256 hex of the emitted bytes,                               *)
(* items = for list artefacts the members in emission order (strings).     *)
(* Event view: Observe(proc, artefact, digest/items) must agree with the   *)
(* first observation of that artefact for the same input.                  *)
(***************************************************************************)
EXTENDS Determinism, Json, IOUtils

Doc   == JsonDeserialize(IOEnv.TRACE_FILE)
Trace == Doc.cases

VARIABLES idx, cnt
vars == <<idx, cnt>>

Procs(c) == { c.obs[k].proc : k \in 1..Len(c.obs) }
ErrorFree(c) == \A k \in 1..Len(c.obs) : c.obs[k].err = ""

\* first observation that disagrees with observation 1 (only called when one exists)
FirstDiffering(c) == CHOOSE k \in 1..Len(c.obs) :
                        /\ ~SameObs(c.obs[k], c.obs[1])
                        /\ \A j \in 1..(k - 1) : SameObs(c.obs[j], c.obs[1])

\* what differs, for the message only
Difference(c) ==
  LET a == c.obs[1]  b == c.obs[FirstDiffering(c)] IN
  IF a.err # b.err THEN "error"
  ELSE IF c.shape = "list" /\ SeqToSet(a.items) # SeqToSet(b.items) THEN "members"
  ELSE IF c.shape = "list" /\ a.items # b.items THEN "order"
  ELSE "bytes"

(***************************************************************************)
(* Named deviation AllDotBracketsHashOrder (P3): BpSeq.all_dot_brackets    *)
(* returns list(set(DotBracket)), common.py:933-941.  It explains a case   *)
(* EXACTLY when                                                            *)
(*  - the artefact is one the design model marks as inheriting that hash   *)
(*    order (Determinism!HashOrderArtefacts, derived from the point table),*)
(*  - no call raised, every list is repetition-free and is a permutation   *)
(*    of the first one (the SET of members is the same in every process),  *)
(*  - repeated calls inside one process agree (the order is fixed by the   *)
(*    process's seed) - that is clause SameWithinProcess, checked before.  *)
(***************************************************************************)
ExplainedByAllDotBracketsHashOrder(c) ==
  /\ c.artefact \in HashOrderArtefacts
  /\ c.shape = "list"
  /\ ErrorFree(c)
  /\ \A k \in 1..Len(c.obs) : IsPermutationOf(c.obs[k].items, c.obs[1].items)

\* (TLC wraps printed tuples at 80 columns: verdict tuples and case ids are kept short)
Verdict(c) ==
  IF c.artefact \notin Artefacts THEN <<"fail", "KnownArtefact", "harness">>
  ELSE IF c.shape \notin {"text", "list"} THEN <<"fail", "KnownShape", "harness">>
  ELSE IF Len(c.obs) < 2 \/ Cardinality(Procs(c)) < 2 THEN <<"fail", "AtLeastTwoProcesses", "harness">>
  \* every launched process must have observed this artefact the agreed number of times
  ELSE IF Len(c.obs) # c.expect THEN <<"fail", "EveryProcessObserved", "missing">>
  ELSE IF ~SameWithinProcessObs(c.obs) THEN <<"fail", "SameWithinProcess", "repeat">>
  ELSE IF SameAcrossRunsObs(c.obs) THEN <<"ok">>
  ELSE IF ExplainedByAllDotBracketsHashOrder(c) THEN <<"deviation", "AllDotBracketsHashOrder", "order">>
  ELSE <<"fail", "SameAcrossRuns", Difference(c), c.obs[FirstDiffering(c)].proc>>

Init == idx = 0 /\ cnt = [ok |-> 0, deviation |-> 0, fail |-> 0, observed |-> 0]

Next ==
  /\ idx < Len(Trace)
  /\ idx' = idx + 1
  /\ LET c == Trace[idx']  v == Verdict(c) IN
     /\ cnt' = [cnt EXCEPT ![v[1]] = @ + 1,
                           !.observed = @ + (IF ErrorFree(c) THEN 1 ELSE 0)]
     /\ (v[1] = "ok" \/ PrintT(<<"V", c.id>> \o v))
  /\ (idx' < Len(Trace) \/ PrintT(<<"SUMMARY", Len(Trace), cnt'.ok, cnt'.deviation, cnt'.fail, cnt'.observed>>))

Spec == Init /\ [][Next]_vars
=============================================================================
