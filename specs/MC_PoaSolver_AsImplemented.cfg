SPECIFICATION Spec
CONSTANT FallbackCallsCachedValue = TRUE
INVARIANT NeverRaises
INVARIANT NotOptimalImpliesFcfs
INVARIANT OkImpliesOptimal
INVARIANT ResultAsRequired
INVARIANT SolverOnlyWhenKnotted
INVARIANT EventsAsExpected
INVARIANT ReplayAgrees
PROPERTY Terminates
CHECK_DEADLOCK FALSE
