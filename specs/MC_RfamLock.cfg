SPECIFICATION FairSpec
CONSTANT N = 4
CONSTANT Variant = "Required"
INVARIANT MutualExclusion
INVARIANT HolderIsInside
INVARIANT InsideHolds
INVARIANT SearchNeedsModel
INVARIANT PrintedInOrder
INVARIANT NoWaiterBehindDeadHolder
PROPERTY Terminates
CHECK_DEADLOCK TRUE
