SPECIFICATION Spec
CONSTANT N = 8
CONSTANT PairlessShortcut = FALSE
INVARIANT ClausesHold
INVARIANT NoDuplicateLoops
CHECK_DEADLOCK FALSE
