CONSTANT GenWraps = {"none", "leadws", "trailws", "crlf"}
CONSTANT GenStackLen = 5
