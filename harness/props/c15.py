"""C15 - Both reader generations and both file formats agree on structure content."""
import json

from .. import lib, atomtable as at

PID = "C15"
TIERS = {
    "quick":    dict(mc="MC_AtomTable_quick.cfg", tables=40, corpus=(4, 4)),
    "thorough": dict(mc="MC_AtomTable_thorough.cfg", tables=9000, corpus=(9, 8)),
}
ACTIONS = ("SeeModel", "SeeAtom", "Eof", "DedupeLoop", "ClashFilterStep", "SelectModelStep", "GroupStep")


def validate(rep, cases, sc, what):
    res = lib.trace_validate("Trace_AtomTable", "Trace_AtomTable_C15.cfg", cases, sc)
    skipped = [v[0] for v in res["verdicts"] if v[1] == "skip"]
    res["verdicts"] = [v for v in res["verdicts"] if v[1] != "skip"]
    rep.add_trace(res, {c["id"]: c for c in cases}, what)
    extra = res.get("extra", [0, 0])
    return skipped, (extra[1] if len(extra) > 1 else 0)


def run(tier):
    t = TIERS[tier]
    rep = lib.Report(PID, tier, "model_checking")
    with lib.Scratch(PID.lower()) as sc:
        at.set_tmpdir(sc.path("files"))
        from concurrent.futures import ThreadPoolExecutor
        pool = ThreadPoolExecutor(max_workers=1)
        job = pool.submit(lib.mc, "MC_AtomTable", t["mc"], sc, workers=max(2, lib.NCPU // 2))
        tables = at.c15_tables(t["tables"], lib.seed())
        corpus = at.c15_corpus_tables(at.CORPUS_C15[:t["corpus"][0]], t["corpus"][1], lib.seed())
        cases = at.c15_cases(tables + corpus)
        rec = lib.pmap(at.record_c15, cases)
        skipped, chi = validate(rep, rec, sc, "C15")
        bad_skip = [i for i in skipped if not i.startswith("corpus-")]
        if bad_skip:
            raise lib.MachineryError(f"generated tables outside the spec's domain (generator defect): {bad_skip[:5]}")
        if chi < len(tables) // 2:
            raise lib.MachineryError(f"only {chi} |chi| comparisons were decided (vacuous SameChiMagnitude)")
        rep.add_mc(job.result(), "the residue-level reader machine that both generations must refine (shared with C08); "
                                 "clauses of AtomTable as invariants", min_actions=ACTIONS)
        pool.shutdown()
        cov = rep.cov
        cov["exhaustive"] = False
        cov["rule"] = (f"{len(tables)} seeded single-model, single-conformer nucleotide backbones (1-2 chains, 2-5 residues "
                       f"per chain, ascending numbers with insertion-code successors and gaps, hetero tails) whose consecutive "
                       f"residues are joined by the link classes {sorted(at.LINKS)} (O3'-P at 1.600 / 2.390 / 2.399 A = bonded, "
                       "2.401 / 2.410 / 2.500 / 7.0 A = broken, P or O3' missing), null-marker classes for icode / occupancy; "
                       f"+ {len(corpus)} windows of single-conformer corpus structures.  Each table is written as PDB and as "
                       "mmCIF by the harness's emitters and read by read_3d_structure and by parse_*_atoms + Structure "
                       "(4 readings).  Non-trivial = distinct table with at least one bonded and one non-bonded consecutive pair.")
        def mixed(x):
            ls = x.get("links", [])
            return any(k.startswith("bond") for k in ls) and any(not k.startswith("bond") for k in ls)
        cov["distinct_nontrivial"] = len({json.dumps(x["lines"], sort_keys=True) for x in tables if mixed(x)})
        cov["chi_magnitudes_compared"] = chi
        cov["cases_skipped_outside_domain"] = len(skipped)
        cov["link_classes"] = {k: sum(1 for x in tables if k in x["links"]) for k in at.LINKS}
        s = dict(rec[0])
        s["lines"] = s["lines"][:12]
        for r in s["reads"]:
            r["res"], r["queried"] = r["res"][:1], r["queried"][:2]
        cov["samples"] = [s]
        rep.assumptions += [
            "the harness's PDB and mmCIF emitters write the abstract table faithfully; coordinates are read back as "
            "milli-Angstrom integers by rounding, |chi| as micro-radians (tolerance 10)",
            "scope (decided by the spec, AgreeDomain): one model, no alternate locations, every atom once, no two atoms within "
            "0.5 A, no O3'-P distance exactly 2.4 A, residue numbers ascending within a chain in file order; cases outside "
            "are skipped and counted",
            "only |chi| is compared: the sign convention of tertiary_v2 belongs to property C18",
            "residue order is not compared (the table-level reader sorts residues); connectivity of the residue-level "
            "reader is queried for every ordered pair of residues of a chain",
        ]
    return rep.finish()


def replay(doc):
    case = doc.get("case")
    if not case:
        print(doc.get("tlc_output_tail", ""))
        return run("quick")
    rep = lib.Report(PID, "quick", "model_checking", evidence=False)
    with lib.Scratch("c15r") as sc:
        at.set_tmpdir(sc.path("files"))
        rec = at.record_c15({k: case[k] for k in ("id", "kind", "fmts", "lines")})
        res = lib.trace_validate("Trace_AtomTable", "Trace_AtomTable_C15.cfg", [rec], sc, chunks=1)
        res["verdicts"] = [v for v in res["verdicts"] if v[1] != "skip"]
        rep.add_trace(res, {rec["id"]: rec}, "C15")
        rep.cov["samples"] = [rec]
        rep.cov["distinct_nontrivial"] = 1
    return rep.finish()
