------------------------------- MODULE Clash -------------------------------
(***************************************************************************)
(* C17 - clash detection equals the pairwise van-der-Waals definition.     *)
(* Single source of truth: radii table, option filters, occupancy rule,    *)
(* the declarative clash set, and the report aggregation (maxima).         *)
(*                                                                         *)
(* Units: radii / palette coordinates in centi-Angstrom (0.01 A);          *)
(*        distances in micro-Angstrom (UM per centi-Angstrom);             *)
(*        occupancies in hundredths (100 = full);                          *)
(*        occupancy sums of LISTED clashes in thousandths (as reported).   *)
(*                                                                         *)
(* A structure S is a record                                               *)
(*    atoms : Seq([r, name, occ, hasocc])   r = residue index,             *)
(*                                          name = Seq of 1-char strings   *)
(*    res   : Seq([chain, nuc])             nuc = residue.is_nucleotide    *)
(* "close" is a set of triples <<i, j, d>> (i < j atom indices, d in       *)
(* micro-A) containing EVERY atom pair nearer than Cutoff.                 *)
(* An option record is [io, ia, na, sn, mp]:                               *)
(*    io ignore_occupancy      ia ignore_autoclashes (same-residue pairs)  *)
(*    na nucleic_acid_only     sn require_same_atom_name                   *)
(*    mp enable_molprobity_mode                                            *)
(***************************************************************************)
EXTENDS Integers, Sequences, FiniteSets

UM == 10000                       \* micro-A per centi-A

Types == {"C", "N", "O", "P"}
Radius == [t \in Types |-> CASE t = "C" -> 60 [] t = "N" -> 54 [] t = "O" -> 53 [] t = "P" -> 94]
MolProbityExtra == 50
MaxRadius == CHOOSE r \in {Radius[t] : t \in Types} : \A t \in Types : Radius[t] <= r
MaxThreshold == 2 * MaxRadius + MolProbityExtra          \* centi-A
Cutoff == 300                                            \* centi-A; "close" must be complete up to here

AllOptions == [io : BOOLEAN, ia : BOOLEAN, na : BOOLEAN, sn : BOOLEAN, mp : BOOLEAN]

\* atom typing: by the first character of the atom name (Atom carries no element field)
TypeOf(nm) == IF Len(nm) > 0 /\ nm[1] \in Types THEN nm[1] ELSE "X"

Extra(o) == IF o.mp THEN MolProbityExtra ELSE 0
Threshold(ta, tb, o) == (Radius[ta] + Radius[tb] + Extra(o)) * UM       \* micro-A

\* the radius the KD-tree is queried with, and the lemma that it loses nothing
SearchRadius(o) == 2 * MaxRadius + Extra(o)                              \* centi-A
SearchRadiusCovers == \A o \in AllOptions : \A ta \in Types : \A tb \in Types :
                         Threshold(ta, tb, o) <= SearchRadius(o) * UM

\* occupancy: an absent occupancy counts as full.  mode "required" is the statement;
\* mode "falsy_is_full" is the behaviour of `(occupancy or 1.0)`: 0.0 also counts as full
OccVal(a, mode) == IF ~a.hasocc THEN 100
                   ELSE IF mode = "falsy_is_full" /\ a.occ = 0 THEN 100 ELSE a.occ
OccSumIsOne(a, b, mode) == OccVal(a, mode) + OccVal(b, mode) = 100

\* the option filters (everything but the distance)
Eligible(S, o, mode, i, j) ==
  LET a == S.atoms[i]  b == S.atoms[j] IN
  /\ TypeOf(a.name) \in Types /\ TypeOf(b.name) \in Types
  /\ (o.na => S.res[a.r].nuc /\ S.res[b.r].nuc)
  /\ (o.ia => a.r # b.r)
  /\ (o.sn => a.name = b.name)
  /\ (o.io \/ OccSumIsOne(a, b, mode))

PairThreshold(S, o, q) == Threshold(TypeOf(S.atoms[q[1]].name), TypeOf(S.atoms[q[2]].name), o)

\* three-valued distance test: distances are trusted up to tol (0 for palette cases)
\*   must be listed :  d <= thr - tol        must not be listed :  d > thr + tol
MustList(S, close, tol, o, mode) ==
  { <<q[1], q[2]>> : q \in { p \in close : /\ Eligible(S, o, mode, p[1], p[2])
                                           /\ p[3] + tol <= PairThreshold(S, o, p) } }
MayList(S, close, tol, o, mode) ==
  { <<q[1], q[2]>> : q \in { p \in close : /\ Eligible(S, o, mode, p[1], p[2])
                                           /\ p[3] <= PairThreshold(S, o, p) + tol } }

\* a listed clash is <<ri, ai, rj, aj, sum>>; its unordered atom pair, normalised
PairOf(e) == IF e[2] < e[4] THEN <<e[2], e[4]>> ELSE <<e[4], e[2]>>
SeqRange(s) == { s[k] : k \in 1..Len(s) }
ListedPairs(L) == { PairOf(L[k]) : k \in 1..Len(L) }

ClashSetExact(S, close, tol, o, mode, L) ==
  /\ MustList(S, close, tol, o, mode) \subseteq ListedPairs(L)
  /\ ListedPairs(L) \subseteq MayList(S, close, tol, o, mode)
EachPairOnce(L) == /\ \A k \in 1..Len(L) : L[k][2] # L[k][4]
                   /\ Cardinality(ListedPairs(L)) = Len(L)

\* ---------------------------------------------------------------- report aggregation
MaxOf(V) == CHOOSE m \in V : \A v \in V : v <= m
ResKey(e) == <<e[1], e[3]>>
ChainKey(S, e) == <<S.res[e[1]].chain, S.res[e[3]].chain>>
SumsOfRes(L, rk) == { L[k][5] : k \in { x \in 1..Len(L) : ResKey(L[x]) = rk } }
SumsOfChain(S, L, ck) == { L[k][5] : k \in { x \in 1..Len(L) : ChainKey(S, L[x]) = ck } }
\* the aggregator's step for one listed clash, as a fold over the list;
\* maps are functions from keys to values, absent key = 0 (`dict.get(key, 0.0)`)
Get(m, key) == IF key \in DOMAIN m THEN m[key] ELSE 0
Put(m, key, v) == [x \in DOMAIN m \cup {key} |-> IF x = key THEN v ELSE m[x]]
Bigger(a, b) == IF a >= b THEN a ELSE b
\* source = "chain_map": required.  source = "residue_map": the chain maximum is refreshed from
\* the per-residue map looked up with a chain key (never present), i.e. max(0, sum) = sum
AddClashRes(resmax, e) == Put(resmax, ResKey(e), Bigger(Get(resmax, ResKey(e)), e[5]))
AddClashChain(S, chainmax, e, source) ==
  Put(chainmax, ChainKey(S, e),
      Bigger(IF source = "chain_map" THEN Get(chainmax, ChainKey(S, e))
             ELSE 0,   \* = Get(resmax, <chain key>): the residue map is keyed by residues, never by chains
             e[5]))
=============================================================================
