"""Shared machinery: TLC runner (MC / Gen / Trace), verdict parser, known-findings
matcher, evidence writer.  The harness never judges: every verdict comes from TLC."""
import json
import os
import re
import shutil
import subprocess
import sys
import tempfile
import time
from concurrent.futures import ThreadPoolExecutor

VERIF = os.path.dirname(os.path.dirname(os.path.abspath(__file__)))
SPECS = os.path.join(VERIF, "specs")
OUT = os.path.join(VERIF, "out")
EVIDENCE = os.path.join(VERIF, "evidence")
REPO = os.environ.get("VERIF_REPO", "/repo")
JAR = "/opt/veriftools/tla/tla2tools.jar"
DEPS = "/opt/veriftools/tla/CommunityModules-deps.jar"
NCPU = min(16, os.cpu_count() or 4)


class MachineryError(Exception):
    """The verification machinery itself failed (exit 2); never reported as pass."""


def seed():
    try:
        return int(os.environ.get("VERIF_SEED", "0"))
    except ValueError:
        return 0


def use_repo():
    """Make `import rnapolis` resolve to the working tree under test."""
    src = os.path.join(REPO, "src")
    if sys.path[0] != src:
        sys.path.insert(0, src)
    for k in [k for k in sys.modules if k == "rnapolis" or k.startswith("rnapolis.")]:
        del sys.modules[k]
    import rnapolis  # noqa

    return src


class Scratch:
    """mktemp -d directory removed on exit; never shared between checks."""

    def __init__(self, tag):
        self.dir = tempfile.mkdtemp(prefix=f"verif-{tag}-")

    def path(self, *p):
        return os.path.join(self.dir, *p)

    def close(self):
        shutil.rmtree(self.dir, ignore_errors=True)

    def __enter__(self):
        return self

    def __exit__(self, *a):
        self.close()


# ----------------------------------------------------------------------------- TLC

_STATS = re.compile(r"(\d+) states generated, (\d+) distinct states found, (\d+) states left")
_COV = re.compile(r"^<(\w+) line \d+, col \d+ to line \d+, col \d+ of module (\w+)>: (\d+):(\d+)", re.M)
_INV = re.compile(r"Invariant (\w+) is violated")
_ACTPROP = re.compile(r"Action property (\w+) is violated")
_TEMPORAL = re.compile(r"Temporal properties were violated")


def tlc(module, cfg, *, workers=NCPU, env=None, coverage=False, scratch, timeout=3600,
        xmx="4g", extra=(), tag=None, simulate=None, deadlock=None):
    """Run TLC on specs/<module>.tla with specs/<cfg>; returns dict(out, rc, stats...)."""
    meta = scratch.path("meta-" + (tag or module) + "-" + str(time.time_ns()))
    gc = "-XX:+UseSerialGC" if workers == 1 else "-XX:+UseParallelGC"
    cmd = ["java", gc, f"-Xmx{xmx}", "-Xss512m", "-cp", f"{JAR}:{DEPS}", "tlc2.TLC",
           "-workers", str(workers), "-metadir", meta, "-noGenerateSpecTE",
           "-config", cfg]
    if coverage:
        cmd += ["-coverage", "1"]
    if simulate:
        cmd += ["-simulate", simulate]
    cmd += list(extra)
    cmd.append(module + ".tla")
    e = dict(os.environ)
    e.update(env or {})
    e.pop("JAVA_TOOL_OPTIONS", None)
    t0 = time.time()
    try:
        p = subprocess.run(cmd, cwd=SPECS, env=e, capture_output=True, text=True, timeout=timeout)
    except subprocess.TimeoutExpired as ex:
        raise MachineryError(f"TLC timeout after {timeout}s: {module} {cfg}") from ex
    finally:
        shutil.rmtree(meta, ignore_errors=True)
    out = p.stdout + p.stderr
    r = {"out": out, "rc": p.returncode, "wall_s": time.time() - t0, "module": module, "cfg": cfg}
    m = None
    for m in _STATS.finditer(out):
        pass
    if m:
        r["generated"], r["distinct"], r["queue"] = int(m.group(1)), int(m.group(2)), int(m.group(3))
    r["coverage"] = {}
    for c in _COV.finditer(out):
        name = c.group(1)
        d = r["coverage"].setdefault(name, [0, 0])
        d[0] += int(c.group(3))
        d[1] += int(c.group(4))
    iv = _INV.search(out)
    ap = _ACTPROP.search(out)
    r["violated"] = iv.group(1) if iv else (ap.group(1) if ap else ("<temporal>" if _TEMPORAL.search(out) else None))
    r["ok"] = "Model checking completed. No error has been found." in out or (
        simulate is not None and p.returncode == 0)
    return r


def mc(module, cfg, scratch, *, expect_violation=None, workers=NCPU, timeout=3600, env=None, xmx="8g"):
    """Design-level model check.  expect_violation=None: must pass.  Otherwise the named
    invariant/property must be the one violated (negative control)."""
    r = tlc(module, cfg, workers=workers, coverage=True, scratch=scratch, timeout=timeout, env=env, xmx=xmx,
            tag="mc")
    if expect_violation is None:
        if not r["ok"]:
            r["verdict"] = "fail"
        else:
            r["verdict"] = "ok"
    else:
        r["verdict"] = "ok" if r["violated"] == expect_violation else "fail"
    if "generated" not in r and r["verdict"] == "ok" and expect_violation is None:
        raise MachineryError(f"TLC produced no statistics for {module}/{cfg}:\n{r['out'][-2000:]}")
    return r


MAX_CHUNK_BYTES = 20_000_000

_VLINE = re.compile(r'^<<"V", (.*)>>\s*$')
_SUMMARY = re.compile(r'^<<"SUMMARY", (.*)>>\s*$')


def _parse_tuple(body):
    """Parse a flat TLA+ tuple body of strings / ints (and nested values kept raw)."""
    vals, i, n = [], 0, len(body)
    while i < n:
        ch = body[i]
        if ch in " ,":
            i += 1
        elif ch == '"':
            j = i + 1
            buf = []
            while body[j] != '"':
                if body[j] == "\\":
                    j += 1
                buf.append(body[j])
                j += 1
            vals.append("".join(buf))
            i = j + 1
        elif ch in "<{[(":
            depth, j = 0, i
            instr = False
            while True:
                c = body[j]
                if instr:
                    if c == "\\":
                        j += 1
                    elif c == '"':
                        instr = False
                elif c == '"':
                    instr = True
                elif c in "<{[(":
                    depth += 1
                elif c in ">}])":
                    depth -= 1
                j += 1
                if depth == 0:
                    break
            vals.append(body[i:j])
            i = j
        else:
            j = i
            while j < n and body[j] not in ", ":
                j += 1
            tok = body[i:j]
            try:
                vals.append(int(tok))
            except ValueError:
                vals.append(tok)
            i = j
    return vals


def _tuples_at(out, head):
    """Yield the bodies of top-level <<head, ...>> tuples printed by PrintT; TLC wraps long values
    over several lines, so match brackets across newlines (strings respected)."""
    start = 0
    mark = re.compile(r'^<<\s*"' + head + '",', re.M)
    n = len(out)
    while True:
        mm = mark.search(out, start)
        if not mm:
            return
        i = mm.start()
        depth, j, instr = 0, i, False
        while j < n:
            c = out[j]
            if instr:
                if c == "\\":
                    j += 1
                elif c == '"':
                    instr = False
            elif c == '"':
                instr = True
            elif c == "<" and out[j:j + 2] == "<<":
                depth += 1
                j += 1
            elif c == ">" and out[j:j + 2] == ">>":
                depth -= 1
                j += 1
                if depth == 0:
                    break
            j += 1
        body = out[i + 2:j - 1]
        yield " ".join(body.split())
        start = j


def parse_verdicts(out):
    """-> (list of (id, kind, name, extra...), summary tuple or None)"""
    verdicts = [tuple(_parse_tuple(b)[1:]) for b in _tuples_at(out, "V")]
    summary = None
    for b in _tuples_at(out, "SUMMARY"):
        summary = tuple(_parse_tuple(b)[1:])
    return verdicts, summary


def trace_validate(module, cfg, cases, scratch, *, chunks=None, key="cases", extra_doc=None,
                   timeout=3600, xmx="3g", env=None, roundrobin=True):
    """Validate recorded cases with the trace spec, in parallel chunks (one TLC, -workers 1, per
    chunk).  Each chunk's SUMMARY must account for every case it was given.
    Returns dict(verdicts=[...], n=..., ok=..., dev=..., fail=..., states, transitions)."""
    n = len(cases)
    if n == 0:
        raise MachineryError("no cases recorded")
    if chunks is None:
        chunks = max(1, min(NCPU, n // 20))
    size = (n + chunks - 1) // chunks
    # a chunk is also bounded in bytes: the JSON document of one TLC process must fit its heap
    # (Json.deserialize builds the whole value); big runs simply get more chunks, NCPU at a time
    texts = [json.dumps(c) for c in cases]
    if roundrobin and chunks > 1:
        # families of very different cost usually arrive one after the other: deal the cases out like cards so that
        # every TLC process gets its share of each family (cases are independent, verdicts are matched by id)
        order = [i for k in range(chunks) for i in range(k, n, chunks)]
        cases = [cases[i] for i in order]
        texts = [texts[i] for i in order]
    parts, ptexts, cur, curt, curb = [], [], [], [], 0
    for c, t in zip(cases, texts):
        if cur and (len(cur) >= size or curb + len(t) > MAX_CHUNK_BYTES):
            parts.append(cur)
            ptexts.append(curt)
            cur, curt, curb = [], [], 0
        cur.append(c)
        curt.append(t)
        curb += len(t) + 1
    parts.append(cur)
    ptexts.append(curt)
    files = []
    extra = "".join(", " + json.dumps(k2) + ": " + json.dumps(v2) for k2, v2 in (extra_doc or {}).items())
    for k, pt in enumerate(ptexts):
        f = scratch.path(f"trace-{module}-{k}-{time.time_ns()}.json")
        with open(f, "w") as fh:
            fh.write("{" + json.dumps(key) + ": [" + ",".join(pt) + "]" + extra + "}")
        files.append(f)
    del texts, ptexts

    def run(k):
        e = dict(env or {})
        e["TRACE_FILE"] = files[k]
        return tlc(module, cfg, workers=1, env=e, scratch=scratch, timeout=timeout, xmx=xmx, tag=f"tr{k}")

    with ThreadPoolExecutor(max_workers=NCPU) as ex:
        results = list(ex.map(run, range(len(parts))))
    verdicts, tot = [], {"n": 0, "ok": 0, "dev": 0, "fail": 0, "states": 0, "transitions": 0}
    for k, r in enumerate(results):
        v, s = parse_verdicts(r["out"])
        if not r["ok"] or s is None:
            raise MachineryError(f"trace validation run failed ({module}/{cfg}, chunk {k}):\n" + r["out"][-3000:])
        sn, sok, sdev, sfail = s[0], s[1], s[2], s[3]
        if sn != len(parts[k]) or sok + sdev + sfail != sn:
            raise MachineryError(f"SUMMARY {s} does not account for {len(parts[k])} cases ({module}, chunk {k})")
        nonok = [x for x in v if len(x) >= 2 and x[1] in ("deviation", "fail")]
        if len(nonok) != sdev + sfail:
            raise MachineryError(f"verdict lines ({len(nonok)}) disagree with SUMMARY {s} ({module}, chunk {k})")
        verdicts += v
        tot["n"] += sn
        tot["ok"] += sok
        tot["dev"] += sdev
        tot["fail"] += sfail
        ex = [x for x in s[4:] if isinstance(x, int)]
        tot.setdefault("extra", [0] * len(ex))
        tot["extra"] = [a + b for a, b in zip(tot["extra"], ex)] if len(tot["extra"]) == len(ex) else tot["extra"]
        tot["states"] += r.get("distinct", 0)
        tot["transitions"] += r.get("generated", 0)
    for f in files:
        try:
            os.remove(f)
        except OSError:
            pass
    tot["verdicts"] = verdicts
    st = _binding_selftest(module, cfg, cases, verdicts, scratch, key, extra_doc, timeout, xmx, env)
    if st:
        tot["selftest"] = st
    return tot


# ----------------------------------------------------------------------------- binding self-test
# "Corrupt one recorded field and show the trace is rejected": once per (trace spec, cfg) and run, a few
# cases the trace spec accepted are copied, ONE leaf of the recorded JSON is altered in each copy, and every
# copy is validated in its own TLC process.  A copy that is still accepted means that leaf is not
# constrained by the spec (an input the other fields remain consistent with, or informative metadata); a
# trace spec that accepts every corrupted copy binds nothing.  The result is informative (evidence), it
# never changes the verdict of the check.

_SELFTEST_DONE = set()
_SELFTEST_SKIP = ("id", "recipe", "tid", "sid", "dom", "what", "via", "fam", "colseed", "feats", "layout", "name", "file")


def _leaves(v, path=()):
    if isinstance(v, dict):
        for k in sorted(v):
            if k in _SELFTEST_SKIP or k.startswith("_"):
                continue
            yield from _leaves(v[k], path + (k,))
    elif isinstance(v, list):
        if v and not isinstance(v[0], (dict, list)):
            yield path + ("#drop",)
        for i, x in enumerate(v):
            yield from _leaves(x, path + (i,))
    elif isinstance(v, bool):
        yield path
    elif isinstance(v, int) or isinstance(v, str):
        yield path


def _mutate(case, path):
    import copy
    c = copy.deepcopy(case)
    ref = c
    for k in path[:-1]:
        ref = ref[k]
    last = path[-1]
    if last == "#drop":
        old = list(ref)
        ref.pop()
        return c, f"{list(path[:-1])}: dropped last element {old[-1]!r}"
    old = ref[last]
    if isinstance(old, bool):
        ref[last] = not old
    elif isinstance(old, int):
        ref[last] = old + 1
    elif len(old) == 1:
        ref[last] = "." if old != "." else "("
    else:
        ref[last] = old + "x"
    return c, f"{list(path)}: {old!r} -> {ref[last]!r}"


def _binding_selftest(module, cfg, cases, verdicts, scratch, key, extra_doc, timeout, xmx, env, k=12):
    if (module, cfg) in _SELFTEST_DONE or os.environ.get("VERIF_NO_SELFTEST"):
        return None
    _SELFTEST_DONE.add((module, cfg))
    import random
    rnd = random.Random(seed() * 7919 + 17)
    bad = {v[0] for v in verdicts if len(v) >= 2}
    okc = [c for c in cases if c.get("id") not in bad]
    if not okc:
        return None
    picks = []
    for c in rnd.sample(okc, min(k, len(okc))):
        lv = list(_leaves(c))
        if lv:
            picks.append(_mutate(c, rnd.choice(lv)))
    if not picks:
        return None
    files = []
    for i, (c, _) in enumerate(picks):
        f = scratch.path(f"selftest-{module}-{i}-{time.time_ns()}.json")
        doc = {key: [c]}
        if extra_doc:
            doc.update(extra_doc)
        with open(f, "w") as fh:
            json.dump(doc, fh)
        files.append(f)

    def run(i):
        e = dict(env or {})
        e["TRACE_FILE"] = files[i]
        try:
            return tlc(module, cfg, workers=1, env=e, scratch=scratch, timeout=min(timeout, 600), xmx=xmx, tag=f"st{i}")
        except MachineryError:
            return {"out": "", "ok": False}

    with ThreadPoolExecutor(max_workers=NCPU) as ex:
        results = list(ex.map(run, range(len(picks))))
    st = {"spec": module, "cfg": cfg, "corrupted_copies": len(picks), "rejected": 0, "aborted_by_tlc": 0,
          "still_accepted": 0, "examples": []}
    for (c, what), r in zip(picks, results):
        v, s = parse_verdicts(r["out"])
        if not r["ok"] or s is None:
            st["aborted_by_tlc"] += 1
            out = "aborted"
        elif any(len(x) >= 2 and x[1] in ("fail", "deviation") for x in v):
            st["rejected"] += 1
            x = [x for x in v if len(x) >= 2 and x[1] in ("fail", "deviation")][0]
            out = f"{x[1]}:{x[2] if len(x) > 2 else ''}"
        else:
            st["still_accepted"] += 1
            out = "accepted"
        if len(st["examples"]) < 6:
            st["examples"].append({"case": str(c.get("id")), "corruption": what[:160], "verdict": out})
    for f in files:
        try:
            os.remove(f)
        except OSError:
            pass
    return st


# ----------------------------------------------------------------------------- findings

def load_findings():
    with open(os.path.join(VERIF, "known_findings.json")) as f:
        doc = json.load(f)
    # during development each property family may stage its entries in findings.d/<PID>.json;
    # they are merged into known_findings.json at integration time
    d = os.path.join(VERIF, "findings.d")
    if os.path.isdir(d):
        for name in sorted(os.listdir(d)):
            if name.endswith(".json"):
                with open(os.path.join(d, name)) as f:
                    extra = json.load(f)
                doc["findings"] += extra.get("findings", [])
                doc["fixed"] += extra.get("fixed", [])
    return doc


class Report:
    """Collects verdicts for one property run, maps them to KNOWN-FINDING / VIOLATION lines,
    writes replay files and the evidence file."""

    def __init__(self, pid, tier, level, evidence=True):
        self.pid, self.tier, self.level = pid, tier, level
        self.write_evidence = evidence      # replays do not overwrite the evidence file
        self.t0 = time.time()
        self.violations = []        # (what, replay_path)
        self.known = {}             # deviation -> count
        self.cov = {"evaluations": 0, "distinct_nontrivial": 0, "rule": "", "samples": [],
                    "states": 0, "transitions": 0, "traces_validated_against_impl": 0,
                    "exhaustive": False, "mc_runs": [], "trace_runs": [], "negative_controls": []}
        self.assumptions = []
        f = load_findings()
        self.open_findings = {e["deviation"]: e for e in f.get("findings", []) if e["property"] == pid}
        os.makedirs(os.path.join(OUT, pid), exist_ok=True)

    # -- design-level model check -------------------------------------------------
    def add_mc(self, r, what, *, negative_control=False, min_actions=()):
        entry = {"spec": r["module"], "cfg": r["cfg"], "what": what, "verdict": r["verdict"],
                 "generated": r.get("generated", 0), "distinct": r.get("distinct", 0),
                 "violated": r.get("violated"), "wall_s": round(r["wall_s"], 1),
                 "actions": {k: v[1] for k, v in r["coverage"].items()}}
        if negative_control:
            self.cov["negative_controls"].append(entry)
            if r["verdict"] != "ok":
                raise MachineryError(f"negative control {r['module']}/{r['cfg']} did not fail as expected "
                                     f"(violated={r.get('violated')}):\n{r['out'][-2000:]}")
            return
        self.cov["mc_runs"].append(entry)
        self.cov["states"] += r.get("distinct", 0)
        self.cov["transitions"] += r.get("generated", 0)
        if r["verdict"] != "ok":
            path = self.replay({"kind": "design-model-check", "spec": r["module"], "cfg": r["cfg"],
                                "violated": r.get("violated"), "tlc_output_tail": r["out"][-6000:]},
                               f"mc-{r['module']}-{r['cfg']}")
            self.violations.append((f"design model {r['module']}/{r['cfg']} violates {r.get('violated')}", path))
        for a in min_actions:   # vacuity guard
            if r["coverage"].get(a, [0, 0])[1] == 0:
                raise MachineryError(f"action {a} never taken in {r['module']}/{r['cfg']} (vacuous model check)")

    # -- trace validation -----------------------------------------------------------
    def add_trace(self, res, cases_by_id, what, *, id_of=lambda c: c["id"]):
        self.cov["trace_runs"].append({"what": what, "cases": res["n"], "ok": res["ok"],
                                       "deviation": res["dev"], "fail": res["fail"]})
        if res.get("selftest"):
            self.cov.setdefault("binding_selftest", []).append(res["selftest"])
        self.cov["traces_validated_against_impl"] += res["n"]
        self.cov["evaluations"] += res["n"]
        self.cov["states"] += res["states"]
        self.cov["transitions"] += res["transitions"]
        for v in res["verdicts"]:
            cid, kind, name = v[0], v[1], v[2]
            case = cases_by_id.get(cid)
            if kind == "deviation" and name in self.open_findings:
                self.known.setdefault(name, []).append(cid)
                continue
            label = f"{kind}:{name}"
            path = self.replay({"kind": "trace-case", "what": what, "verdict": list(v), "case": case},
                               f"{what}-{str(cid)}".replace("/", "_")[:80])
            self.violations.append((f"{what} case {cid}: {label}", path))

    def replay(self, doc, name):
        doc = dict(doc)
        doc["property"] = self.pid
        os.makedirs(os.path.join(OUT, self.pid), exist_ok=True)
        path = os.path.join(OUT, self.pid, re.sub(r"[^A-Za-z0-9_.-]", "_", name) + ".json")
        with open(path, "w") as f:
            json.dump(doc, f, indent=1, default=str)
        return path

    def finish(self):
        wall = time.time() - self.t0
        ev = {"property_id": self.pid, "tier": self.tier, "seed": seed(), "level": self.level,
              "coverage": self.cov, "assumptions": self.assumptions, "wall_s": round(wall, 2),
              "violations": len(self.violations)}
        self.cov["known_findings_seen"] = {k: len(v) for k, v in self.known.items()}
        other_tree = os.environ.get("VERIF_REPO") and os.path.realpath(os.environ["VERIF_REPO"]) != os.path.realpath("/repo")
        if self.write_evidence and not other_tree:      # (a trial against a patched copy must not replace the evidence)
            # areas beyond the listed properties (ids X..) keep their evidence apart from the properties'
            evdir = EVIDENCE if not self.pid.startswith("X") else os.path.join(VERIF, "extras", "evidence")
            os.makedirs(evdir, exist_ok=True)
            with open(os.path.join(evdir, f"{self.pid}.json"), "w") as f:
                json.dump(ev, f, indent=1, default=str)
        for dev, ids in sorted(self.known.items()):
            e = self.open_findings[dev]
            print(f"KNOWN-FINDING: property={self.pid} {dev}: {e['what_fails']} "
                  f"[{len(ids)} case(s) this run, e.g. {ids[0]}]")
        shown = 0
        for what, path in self.violations:
            if shown < 25:
                print(f"VIOLATION property={self.pid} replay={path}  ({what})")
            shown += 1
        if shown > 25:
            print(f"... {shown - 25} further violations not printed (all have replay files under out/{self.pid}/)")
        print(f"[{self.pid}] tier={self.tier} cases={self.cov['evaluations']} states={self.cov['states']} "
              f"violations={len(self.violations)} known={sum(len(v) for v in self.known.values())} "
              f"wall={wall:.1f}s")
        return 1 if self.violations else 0


def pmap(fn, items, procs=NCPU, chunksize=None):
    """Run fn over items in a process pool (fork), order-preserving."""
    import multiprocessing as mp
    if len(items) == 0:
        return []
    ctx = mp.get_context("fork")
    if chunksize is None:
        chunksize = max(1, len(items) // (procs * 8))
    with ctx.Pool(procs) as pool:
        return pool.map(fn, items, chunksize=chunksize)
