SPECIFICATION Spec
CONSTANT Modes = {"dssr"}
CONSTANT LabelSpaces <- QuickLabelSpaces
CONSTANT ListingSpaces <- QuickListingSpaces
CONSTANT DssrSpaces <- AsImplDssrSpaces
CONSTANT Contained <- BothContained
CONSTANT LwTest = "dir"
INVARIANT LabelMapExact
INVARIANT LabelStepsTyped
INVARIANT Fr3dNeverRaises
INVARIANT LineYieldsExactlyOne
INVARIANT MalformedSkipped
INVARIANT UnknownKeptAsOther
INVARIANT DssrPairsExact
INVARIANT DssrStacksExact
CHECK_DEADLOCK FALSE
