---------------------------- MODULE Trace_Annot ----------------------------
(***************************************************************************)
(* Trace validation for the annotation family (C03, C04, C11).              *)
(* One TLC state per recorded case.  A case of kind "ann" is what the real  *)
(* annotator returned for one Structure3D together with what the            *)
(* independent measurer measured on the same structure; every judgement is  *)
(* made here, by the clauses of Annot.tla.                                  *)
(*                                                                         *)
(*  c.res    residues (1-based index = position in the structure):          *)
(*           m model, lid/aid identity classes of label/auth (0 = absent),  *)
(*           <<ch, num, ic>> sort key, L letter, hn/hg/hc = has base        *)
(*           normal / C1' and N1|N9 / base centroid                         *)
(*  c.model  analysed model (-1 = whole structure; 0 is a model number)        *)
(*  C04: c.stk candidates (Annot!StackCoherent), c.stacks reported          *)
(*  C03: c.con contact groups per residue pair, c.pairs reported            *)
(*  C11: all four lists, c.bcon base->phosphate/ribose contact groups,      *)
(*       c.w written files parsed back; kinds "table" / "saenger"           *)
(***************************************************************************)
EXTENDS Annot, Json, IOUtils

CONSTANTS Family      \* "C03" | "C04" | "C11"

Doc   == JsonDeserialize(IOEnv.TRACE_FILE)
Trace == Doc.cases

VARIABLES idx, cnt
vars == <<idx, cnt>>

\* ------------------------------------------------------------------ common helpers
Valid(c, i)   == i \in 1..Len(c.res)
Key(c, i)     == <<c.res[i].ch, c.res[i].num, c.res[i].ic>>
InModel(c, i) == Valid(c, i) /\ (c.model = -1 \/ c.res[i].m = c.model)
SameIdentity(c, i, j) == \/ c.res[i].lid # 0 /\ c.res[i].lid = c.res[j].lid
                         \/ c.res[i].aid # 0 /\ c.res[i].aid = c.res[j].aid
Idx(s) == 1..Len(s)
\* first index of s satisfying P, 0 when none
FirstIdx(s, P(_)) == LET B == { k \in Idx(s) : P(s[k]) } IN IF B = {} THEN 0 ELSE CHOOSE k \in B : \A m \in B : k <= m

SortedByKeys(c, s) ==
  \A k \in 1..(Len(s) - 1) : PairKeyLeq(Key(c, s[k].i), Key(c, s[k].j), Key(c, s[k + 1].i), Key(c, s[k + 1].j))

\* ------------------------------------------------------------------ C04
StkOK(c, s)     == Valid(c, s.i) /\ Valid(c, s.j) /\ s.i < s.j /\ StackCoherent(s)
\* pointer from a reported stacking to its measured candidate (0 = no candidate within the pre-filter)
StackCand(c, r) == c.stk[r.ck]
CkOK(c, r)      == r.ck = 0 \/ (r.ck \in Idx(c.stk) /\ {c.stk[r.ck].i, c.stk[r.ck].j} = {r.i, r.j})
ReportedStacks(c) == { {c.stacks[k].i, c.stacks[k].j} : k \in Idx(c.stacks) }

C04ann(c) ==
  IF c.err # "" THEN <<"fail", "NoException", c.err>>
  ELSE LET badm == FirstIdx(c.stk, LAMBDA s : ~StkOK(c, s)) IN
  IF badm # 0 THEN <<"fail", "MeasureCoherent", "harness", badm>>
  ELSE LET R == c.stacks
           b1 == FirstIdx(R, LAMBDA r : ~(InModel(c, r.i) /\ InModel(c, r.j)))
           b2 == FirstIdx(R, LAMBDA r : ~CkOK(c, r))
           b3 == FirstIdx(R, LAMBDA r : r.i = r.j)
           b4 == FirstIdx(R, LAMBDA r : r.ck = 0 \/ ~StackMayQualify(StackCand(c, r)))
           b5 == FirstIdx(R, LAMBDA r : r.top \notin Topologies \/ ~StackLabelOK(r.top, StackCand(c, r).dotf))
           b6 == FirstIdx(R, LAMBDA r : KeyLess(Key(c, r.j), Key(c, r.i))) IN
  IF b1 # 0 THEN <<"fail", "ParticipantsInModel", b1>>
  ELSE IF b2 # 0 THEN <<"fail", "PointerCoherent", "harness", b2>>
  ELSE IF b3 # 0 THEN <<"fail", "StackDistinct", b3>>
  ELSE IF b4 # 0 THEN <<"fail", "StackSound", b4>>
  ELSE IF b5 # 0 THEN <<"fail", "StackLabel", b5>>
  ELSE IF b6 # 0 THEN <<"fail", "StackOrdered", b6>>
  ELSE IF ~SortedByKeys(c, R) THEN <<"fail", "StackOrdered", "list">>
  ELSE IF Cardinality(ReportedStacks(c)) # Len(R) THEN <<"fail", "StackOnce", "list">>
  ELSE LET Rep == ReportedStacks(c)
           miss == FirstIdx(c.stk, LAMBDA s : /\ StackMustQualify(s) /\ InModel(c, s.i) /\ InModel(c, s.j)
                                              /\ ~SameIdentity(c, s.i, s.j) /\ {s.i, s.j} \notin Rep) IN
  IF miss # 0 THEN <<"fail", "StackComplete", miss>>
  ELSE <<"ok">>

\* evidence counters of a C04 case: <<interpretation-sensitive, certainly qualifying, undecided (near)>>
C04info(c) ==
  << Cardinality({ k \in Idx(c.stk) : StackDirectionOnly(c.stk[k]) }),
     Cardinality({ k \in Idx(c.stk) : StackMustQualify(c.stk[k]) }),
     Cardinality({ k \in Idx(c.stk) : StackMayQualify(c.stk[k]) /\ ~(Surely(c.stk[k].df) /\ Surely(c.stk[k].nnf)
                                                                        /\ Surely(c.stk[k].owf)) }) >>

\* ------------------------------------------------------------------ C03
GroupOK(c, g) ==
  /\ Valid(c, g.i) /\ Valid(c, g.j) /\ g.i < g.j
  /\ ContactsDistinct(g.cs)
  /\ \A k \in Idx(g.cs) : ContactCoherent(g.cs[k])
  /\ g.tf \in Flags /\ (g.tf = "na" \/ CoherentUpper(g.tf, g.t, CisTransBoundary))
  /\ (g.tf # "na") = (c.res[g.i].hg /\ c.res[g.j].hg)

PairCkOK(c, p) == p.ck = 0 \/ (p.ck \in Idx(c.con) /\ {c.con[p.ck].i, c.con[p.ck].j} = {p.i, p.j})
\* support of a reported pair, edges swapped when the pair is listed against the structure order
PairSupport(c, p, o2twice) ==
  LET g == c.con[p.ck]  Li == c.res[g.i].L  Lj == c.res[g.j].L
      e1 == IF g.i = p.i THEN p.e1 ELSE p.e2
      e2 == IF g.i = p.i THEN p.e2 ELSE p.e1 IN
  IF o2twice THEN SupportO2Twice(Li, Lj, g.cs, e1, e2) ELSE Support(Li, Lj, g.cs, e1, e2, FALSE)
Sound(c, p)        == p.ck # 0 /\ PairSupport(c, p, FALSE) >= MinContacts
\* deviation P16: enough support only when every contact through O2' is counted twice
SoundO2Twice(c, p) == p.ck # 0 /\ PairSupport(c, p, FALSE) < MinContacts /\ PairSupport(c, p, TRUE) >= MinContacts

PairTuples(c) == { <<c.pairs[k].i, c.pairs[k].j, c.pairs[k].ct, c.pairs[k].e1, c.pairs[k].e2>> : k \in Idx(c.pairs) }
PairSet(c)    == { c.pairs[k] : k \in Idx(c.pairs) }

\* completeness of one contact group: every edge combination with >= 2 certain base-to-base contacts
\* is reported with that class or has one of its two edges taken
GroupMaximal(c, g, Rep, Occ) ==
  LET Li == c.res[g.i].L  Lj == c.res[g.j].L IN
  \A e1, e2 \in Edges :
     Support(Li, Lj, g.cs, e1, e2, TRUE) >= MinContacts =>
        \/ \E ct \in CisTrans : /\ CisTransAgrees(ct, g.tf)
                                /\ (<<g.i, g.j, ct, e1, e2>> \in Rep \/ <<g.j, g.i, ct, e2, e1>> \in Rep)
        \/ <<g.i, e1>> \in Occ
        \/ <<g.j, e2>> \in Occ
Demanded(c, g) == /\ InModel(c, g.i) /\ InModel(c, g.j) /\ ~SameIdentity(c, g.i, g.j)
                  /\ c.res[g.i].hn /\ c.res[g.j].hn /\ c.res[g.i].hg /\ c.res[g.j].hg /\ g.tf # "na"

C03ann(c) ==
  IF c.err # "" THEN <<"fail", "NoException", c.err>>
  ELSE LET badm == FirstIdx(c.con, LAMBDA g : ~GroupOK(c, g)) IN
  IF badm # 0 THEN <<"fail", "MeasureCoherent", "harness", badm>>
  ELSE LET R == c.pairs
           b0 == FirstIdx(R, LAMBDA p : ~(p.ct \in CisTrans /\ p.e1 \in Edges /\ p.e2 \in Edges))
           b1 == FirstIdx(R, LAMBDA p : ~(InModel(c, p.i) /\ InModel(c, p.j)))
           b2 == FirstIdx(R, LAMBDA p : ~PairCkOK(c, p))
           b3 == FirstIdx(R, LAMBDA p : p.i = p.j \/ SameIdentity(c, p.i, p.j))
           b4 == FirstIdx(R, LAMBDA p : ~Sound(c, p) /\ ~SoundO2Twice(c, p))
           b5 == FirstIdx(R, LAMBDA p : ~CisTransAgrees(p.ct, c.con[p.ck].tf))
           dev == FirstIdx(R, LAMBDA p : SoundO2Twice(c, p)) IN
  IF b0 # 0 THEN <<"fail", "ClassWellFormed", b0>>
  ELSE IF b1 # 0 THEN <<"fail", "ParticipantsInModel", b1>>
  ELSE IF b2 # 0 THEN <<"fail", "PointerCoherent", "harness", b2>>
  ELSE IF b3 # 0 THEN <<"fail", "PairDistinct", b3>>
  ELSE IF b4 # 0 THEN <<"fail", "PairSound", b4>>
  ELSE IF b5 # 0 THEN <<"fail", "CisTransMatches", b5>>
  ELSE IF ~EdgeExclusiveSeq(R) THEN <<"fail", "EdgeExclusive", "list">>
  ELSE LET Rep == PairTuples(c)  Occ == OccupiedBy(PairSet(c))
           miss == FirstIdx(c.con, LAMBDA g : Demanded(c, g) /\ ~GroupMaximal(c, g, Rep, Occ)) IN
  IF miss # 0 THEN <<"fail", "PairMaximal", miss>>
  ELSE IF dev # 0 THEN <<"deviation", "O2PrimeCountedTwice", dev>>
  ELSE <<"ok">>

\* evidence counters of a C03 case: <<reported pairs, groups with a demanded edge combination, O2'-only pairs>>
C03info(c) ==
  << Len(c.pairs),
     Cardinality({ k \in Idx(c.con) : Demanded(c, c.con[k]) /\ \E e1, e2 \in Edges :
                      Support(c.res[c.con[k].i].L, c.res[c.con[k].j].L, c.con[k].cs, e1, e2, TRUE) >= MinContacts }),
     Cardinality({ k \in Idx(c.pairs) : c.pairs[k].ck # 0 /\ PairCkOK(c, c.pairs[k]) /\ SoundO2Twice(c, c.pairs[k]) }) >>

\* ------------------------------------------------------------------ C11
ListOK(c, s, what) ==            \* participants, self-contacts; returns "" when fine
  IF \E k \in Idx(s) : ~(InModel(c, s[k].i) /\ InModel(c, s[k].j)) THEN "ParticipantsInModel"
  ELSE IF \E k \in Idx(s) : s[k].i = s[k].j \/ SameIdentity(c, s[k].i, s[k].j) THEN "NoSelf"
  ELSE ""
LowerFirst(c, s) == \A k \in Idx(s) : KeyLeq(Key(c, s[k].i), Key(c, s[k].j))

\* base -> phosphate ("p") / ribose ("r") contacts of a reported interaction b (i = donor residue)
BGroupOK(c, g) == /\ Valid(c, g.i) /\ Valid(c, g.j) /\ g.i # g.j
                  /\ \A k \in Idx(g.cs) : /\ g.cs[k].df \in {"in", "near", "out"}
                                          /\ CoherentUpper(g.cs[k].df, g.cs[k].dist, BphMaxDist)
                                          /\ g.cs[k].tf \in Flags /\ g.cs[k].ak \in {"p", "r"}
BCkOK(c, b) == b.ck = 0 \/ (b.ck \in Idx(c.bcon) /\ c.bcon[b.ck].i = b.i /\ c.bcon[b.ck].j = b.j)
IsContact(c, g, x, ak) ==
  /\ x.ak = ak /\ Maybe(x.df) /\ IsDonor(c.res[g.i].L, x.d)
  /\ (IF ak = "p" THEN x.a \in PhosphateAcceptors ELSE x.a \in RiboseAcceptors)
HasContact(c, b, ak) == b.ck # 0 /\ \E k \in Idx(c.bcon[b.ck].cs) : IsContact(c, c.bcon[b.ck], c.bcon[b.ck].cs[k], ak)
PossibleClasses(c, g, ak) ==
  UNION { BphClassesOf(c.res[g.i].L, g.cs[k].d, g.cs[k].tf) : k \in { m \in Idx(g.cs) : IsContact(c, g, g.cs[m], ak) } }
\* certainly classified: strictly within range, class decided, and neither atom has any other
\* possible phosphate/ribose contact (so no earlier contact can have consumed the atoms)
ForcedClasses(c, g, ak) ==
  UNION { BphClassesOf(c.res[g.i].L, g.cs[k].d, g.cs[k].tf) :
          k \in { m \in Idx(g.cs) : /\ IsContact(c, g, g.cs[m], ak) /\ Surely(g.cs[m].df)
                                    /\ g.cs[m].tf \in {"in", "out"} /\ g.cs[m].dd = 1 /\ g.cs[m].da = 1
                                    /\ ~SameIdentity(c, g.i, g.j) } }
Implied(c, b, ak) == LET g == c.bcon[b.ck] IN ClassImplied(b.cls, ForcedClasses(c, g, ak), PossibleClasses(c, g, ak))
NoRepeat3(s, f(_)) == Cardinality({ f(s[k]) : k \in Idx(s) }) = Len(s)

\* Residues whose records were handed to the code in two blocks (variant "splitres": two objects, one
\* identity).  The code classifies each block's contacts on their own, so for an interaction that touches such
\* a residue the merged view of this specification does not say which class(es) are implied, nor that there
\* is one entry per residue pair; those entries are judged for well-formedness and for having a contact only.
SplitRes(c) == { c.split[k] : k \in Idx(c.split) }
Whole(c, b) == b.i \notin SplitRes(c) /\ b.j \notin SplitRes(c)
BList(c, s, ak, nContact, nClass, nOne) ==
  LET l == ListOK(c, s, ak)
      w == SelectSeq(s, LAMBDA b : Whole(c, b)) IN
  IF l # "" THEN <<"fail", l, ak>>
  ELSE IF \E k \in Idx(s) : ~BCkOK(c, s[k]) THEN <<"fail", "PointerCoherent", "harness", ak>>
  ELSE IF ~NoRepeat3(w, LAMBDA b : <<b.i, b.j, b.cls>>) THEN <<"fail", "NoRepeat", ak>>
  ELSE LET b1 == FirstIdx(s, LAMBDA b : ~HasContact(c, b, ak))
           b2 == FirstIdx(s, LAMBDA b : b.cls \notin 0..9 \/ (Whole(c, b) /\ ~Implied(c, b, ak))) IN
  IF b1 # 0 THEN <<"fail", nContact, b1>>
  ELSE IF b2 # 0 THEN <<"fail", nClass, b2>>
  ELSE IF ~NoRepeat3(w, LAMBDA b : <<b.i, b.j>>) THEN <<"fail", nOne, ak>>
  ELSE <<"ok">>

C11ann(c) ==
  IF c.err # "" THEN <<"fail", "NoException", c.err>>
  ELSE IF \E k \in Idx(c.bcon) : ~BGroupOK(c, c.bcon[k]) THEN <<"fail", "MeasureCoherent", "harness">>
  ELSE LET lp == ListOK(c, c.pairs, "pairs")  ls == ListOK(c, c.stacks, "stacks") IN
  IF lp # "" THEN <<"fail", lp, "pairs">>
  ELSE IF ls # "" THEN <<"fail", ls, "stackings">>
  ELSE IF ~NoRepeat3(c.pairs, LAMBDA p : <<p.i, p.j, p.ct, p.e1, p.e2>>) THEN <<"fail", "NoRepeat", "pairs">>
  ELSE IF ~NoRepeat3(c.stacks, LAMBDA p : <<p.i, p.j, p.top>>) THEN <<"fail", "NoRepeat", "stackings">>
  ELSE IF ~LowerFirst(c, c.pairs) THEN <<"fail", "LowerFirst", "pairs">>
  ELSE IF ~LowerFirst(c, c.stacks) THEN <<"fail", "LowerFirst", "stackings">>
  ELSE IF ~SortedByKeys(c, c.pairs) THEN <<"fail", "Sorted", "pairs">>
  ELSE IF ~SortedByKeys(c, c.stacks) THEN <<"fail", "Sorted", "stackings">>
  ELSE LET bs == FirstIdx(c.pairs, LAMBDA p :
                   \/ ~(p.ct \in CisTrans /\ p.e1 \in Edges /\ p.e2 \in Edges)
                   \/ p.sa # SaengerOf(c.res[p.i].L, c.res[p.j].L, <<p.ct, p.e1, p.e2>>)
                   \/ p.sa # SaengerOf(c.res[p.j].L, c.res[p.i].L, LwReverse(<<p.ct, p.e1, p.e2>>))) IN
  IF bs # 0 THEN <<"fail", "SaengerIffDefined", bs>>
  ELSE LET vp == BList(c, c.bph, "p", "BphContact", "BphClassImplied", "OneClassPerResiduePair") IN
  IF vp[1] # "ok" THEN vp
  ELSE LET vr == BList(c, c.br, "r", "BrContact", "BrClassImplied", "OneClassPerResiduePair") IN
  IF vr[1] # "ok" THEN vr
  ELSE IF c.w.err # "" THEN <<"fail", "WritersFaithful", c.w.err>>
  ELSE IF c.w.header # <<"nt1", "nt2", "type", "classification-1", "classification-2">> /\ c.w.header # <<>>
       THEN <<"fail", "WritersFaithful", "csv header">>
  ELSE IF c.w.csv # c.w.mem THEN <<"fail", "WritersFaithful", "csv">>
  ELSE IF c.w.json # c.w.mem THEN <<"fail", "WritersFaithful", "json">>
  ELSE <<"ok">>

\* evidence counters of a C11 case: <<interactions, bph+br with a forced class, pairs with a Saenger class>>
C11info(c) ==
  << Len(c.pairs) + Len(c.stacks) + Len(c.bph) + Len(c.br),
     Cardinality({ k \in Idx(c.bph) : c.bph[k].ck # 0 /\ BCkOK(c, c.bph[k]) /\ ForcedClasses(c, c.bcon[c.bph[k].ck], "p") # {} })
       + Cardinality({ k \in Idx(c.br) : c.br[k].ck # 0 /\ BCkOK(c, c.br[k]) /\ ForcedClasses(c, c.bcon[c.br[k].ck], "r") # {} }),
     Cardinality({ k \in Idx(c.pairs) : c.pairs[k].sa # "" }) >>

\* the implementation's Saenger table and LW reverse map, entry by entry
C11table(c) ==
  LET E == { c.entries[k] : k \in Idx(c.entries) } IN
  IF c.odd # <<>> THEN <<"fail", "TableConforms", "malformed key">>
  ELSE IF Cardinality(E) # Len(c.entries) THEN <<"fail", "TableConforms", "repeated entry">>
  ELSE IF E \ SaengerEntries # {} THEN <<"fail", "TableConforms", CHOOSE e \in E \ SaengerEntries : TRUE>>
  ELSE IF SaengerEntries \ E # {} THEN <<"fail", "TableConforms", CHOOSE e \in SaengerEntries \ E : TRUE>>
  ELSE IF { c.names[k] : k \in Idx(c.names) } # SaengerNames THEN <<"fail", "TableConforms", "names">>
  ELSE IF { <<c.reverse[k][1], c.reverse[k][2], c.reverse[k][3]>> : k \in Idx(c.reverse) } # LwClasses
          \/ Len(c.reverse) # Cardinality(LwClasses)
       THEN <<"fail", "ReverseConforms", "classes">>
  ELSE IF \E k \in Idx(c.reverse) :
            <<c.reverse[k][4], c.reverse[k][5], c.reverse[k][6]>>
              # LwReverse(<<c.reverse[k][1], c.reverse[k][2], c.reverse[k][3]>>)
       THEN <<"fail", "ReverseConforms", "mapping">>
  ELSE <<"ok">>

C11saenger(c) ==
  LET bad == FirstIdx(c.calls, LAMBDA x : x[6] # SaengerOf(x[1], x[2], <<x[3], x[4], x[5]>>)) IN
  IF bad # 0 THEN <<"fail", "SaengerIffDefined", c.calls[bad]>> ELSE <<"ok">>

\* the implementation's donor / acceptor / edge tables (public module constants of rnapolis.tertiary), entry by
\* entry against the tables of Annot.tla: the measured contacts of every case are classified by the latter, so a
\* table of the code that differs makes it count contacts the statement does not (or miss some it does)
ChemTable(c) ==
  LET S(x) == { x[k] : k \in Idx(x) }
      donors    == { <<L, a>> : L \in DOMAIN Donors, a \in UNION { Donors[M] : M \in DOMAIN Donors } }
      wantD     == { p \in donors : p[2] \in Donors[p[1]] }
      wantA     == { p \in { <<L, a>> : L \in DOMAIN BaseAcceptors, a \in UNION { BaseAcceptors[M] : M \in DOMAIN BaseAcceptors } } :
                       p[2] \in BaseAcceptors[p[1]] }
      wantE     == { <<L, a, e>> : L \in DOMAIN EdgeOf, a \in UNION { DOMAIN EdgeOf[M] : M \in DOMAIN EdgeOf }, e \in {"W", "H", "S"} }
      wantEdges == { t \in wantE : t[2] \in DOMAIN EdgeOf[t[1]] /\ t[3] \in EdgeOf[t[1]][t[2]] } IN
  IF c.err # "" THEN <<"fail", "ContactTablesConform", c.err>>
  ELSE IF { <<x[1], x[2]>> : x \in S(c.donors) } # wantD THEN <<"fail", "ContactTablesConform", "donors">>
  ELSE IF { <<x[1], x[2]>> : x \in S(c.acceptors) } # wantA THEN <<"fail", "ContactTablesConform", "acceptors">>
  ELSE IF { <<x[1], x[2], x[3]>> : x \in S(c.edges) } # wantEdges THEN <<"fail", "ContactTablesConform", "edges">>
  ELSE IF S(c.phosphate) # PhosphateAcceptors THEN <<"fail", "ContactTablesConform", "phosphate acceptors">>
  ELSE IF S(c.ribose) # RiboseAcceptors THEN <<"fail", "ContactTablesConform", "ribose acceptors">>
  ELSE <<"ok">>

\* ------------------------------------------------------------------ dispatch
Verdict(c) ==
  IF c.kind = "chem" THEN ChemTable(c)
  ELSE IF c.kind = "table" THEN C11table(c)
  ELSE IF c.kind = "saenger" THEN C11saenger(c)
  ELSE IF Family = "C03" THEN C03ann(c)
  ELSE IF Family = "C04" THEN C04ann(c)
  ELSE C11ann(c)

Info(c) ==
  IF c.kind # "ann" THEN <<0, 0, 0>>
  ELSE IF Family = "C03" THEN C03info(c)
  ELSE IF Family = "C04" THEN C04info(c)
  ELSE C11info(c)

Init == idx = 0 /\ cnt = [ok |-> 0, deviation |-> 0, fail |-> 0]

Next ==
  /\ idx < Len(Trace)
  /\ idx' = idx + 1
  /\ LET c == Trace[idx']  v == Verdict(c) IN
     /\ cnt' = [cnt EXCEPT ![v[1]] = @ + 1]
     /\ (v[1] = "ok" \/ PrintT(<<"V", c.id>> \o v))
     /\ (v[1] = "fail" \/ c.kind # "ann" \/ PrintT(<<"V", c.id, "info">> \o Info(c)))
  /\ (idx' < Len(Trace) \/ PrintT(<<"SUMMARY", Len(Trace), cnt'.ok, cnt'.deviation, cnt'.fail>>))

Spec == Init /\ [][Next]_vars
=============================================================================
