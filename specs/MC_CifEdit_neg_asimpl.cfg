SPECIFICATION Spec
CONSTANT Vals = {"u", "v"}
CONSTANT MaxRows = 2
CONSTANT QFull = FALSE
CONSTANT CliReadsFile = FALSE
CONSTANT CliWritesText = FALSE
CONSTANT CliOpensOutputFirst = FALSE
INVARIANT CliEqualsLib
CHECK_DEADLOCK FALSE
