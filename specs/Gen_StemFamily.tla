--------------------------- MODULE Gen_StemFamily ---------------------------
(***************************************************************************)
(* Generation mode, stem level.  Gen_SecStruct enumerates every matching    *)
(* on <= MaxN POSITIONS; optimality of a level assignment, however, is      *)
(* decided by the LENGTHS of crossing stems (the objective weighs a stem    *)
(* by its number of pairs), and the interesting trade-offs need stems of    *)
(* different lengths - far beyond MaxN positions.  This module enumerates    *)
(* the secondary structures made of K stems:                                *)
(*    arrangement = a perfect matching on the 2K strand slots (every chord  *)
(*                  diagram: nested, side by side, crossing in every way),  *)
(*    lens        = one length per stem from the palette Lens,              *)
(* strands separated by one unpaired nucleotide (so stems never merge), and *)
(* builds the positions itself.  Mode "star": one stem crossed by M         *)
(* mutually nested stems and one more stem crossing the hub and M-1 of      *)
(* them (needs M + 1 candidate levels, three of them used).                 *)
(***************************************************************************)
EXTENDS SecStruct, Json, IOUtils

CONSTANTS MaxK,      \* arrangements of 2..MaxK stems
          Lens,      \* palette of stem lengths
          MinCross,  \* keep arrangements with at least this many crossing stem pairs
          Stars      \* set of M for the star family

\* slot s (1..2K) carries one strand; chord <<a, b>> joins slots a < b
SlotLen(ar, lens, s) == LET c == CHOOSE c \in DOMAIN ar : ar[c][1] = s \/ ar[c][2] = s IN lens[c]
\* first position of slot s: strands in slot order, one unpaired nucleotide between strands
RECURSIVE Start(_, _, _)
Start(ar, lens, s) == IF s = 1 THEN 1 ELSE Start(ar, lens, s - 1) + SlotLen(ar, lens, s - 1) + 1
Total(ar, lens) == LET last == 2 * Len(ar) IN Start(ar, lens, last) + SlotLen(ar, lens, last) - 1
PairsOfArr(ar, lens) ==
  UNION { { <<Start(ar, lens, ar[c][1]) + k, Start(ar, lens, ar[c][2]) + lens[c] - 1 - k>> : k \in 0..(lens[c] - 1) }
          : c \in DOMAIN ar }

ChordCross(p, q) == (p[1] < q[1] /\ q[1] < p[2] /\ p[2] < q[2]) \/ (q[1] < p[1] /\ p[1] < q[2] /\ q[2] < p[2])
NCross(ar) == Cardinality({ pq \in (DOMAIN ar) \X (DOMAIN ar) : pq[1] < pq[2] /\ ChordCross(ar[pq[1]], ar[pq[2]]) })

\* arrangements of k stems: perfect matchings on 1..2k, chords listed by their first slot
Arrangements(k) == { SetToSortSeq(m, LAMBDA x, y : x[1] < y[1]) : m \in { mm \in Matchings(1..(2 * k)) : Cardinality(mm) = k } }

ArrCases(k) ==
  { [fam |-> "arr", k |-> k, arr |-> ar, lens |-> ls, n |-> Total(ar, ls), pairs |-> SetToSeq(PairsOfArr(ar, ls))] :
      ar \in { a \in Arrangements(k) : NCross(a) >= MinCross }, ls \in [1..k -> Lens] }

\* star of M: slots  X5 H1..HM Y5 | X3 | HM..H1 (3' strands) ... built as an arrangement:
\* hub X = chord <<1, M + 3>>; H_i = chord <<1 + i, 2M + 4 - i + 1>> (mutually nested, each crossing X);
\* Y = chord <<M + 2, 2M + 5 ... >> crossing X and H_2..H_M.  Simpler: give the slot order explicitly.
StarArr(M) ==
  \* slot order:  X  H1 .. HM  Y  X'  Y'?  -- Y must cross X (starts inside X, ends outside) and H2..HM
  \* 5' slots: X=1, H_i = 1+i (i=1..M), Y = M+2 ; then X' = M+3 ; then H_M' .. H_2' = M+4 .. 2M+2 ; Y' = 2M+3 ; H_1' = 2M+4
  << <<1, M + 3>> >> \o [i \in 1..M |-> <<1 + i, IF i = 1 THEN 2 * M + 4 ELSE 2 * M + 4 - i>>] \o << <<M + 2, 2 * M + 3>> >>
StarCases ==
  { LET ar == StarArr(M)  ls == [c \in DOMAIN ar |-> IF c = 1 THEN 3 ELSE 1] IN
    [fam |-> "star", k |-> M + 2, arr |-> ar, lens |-> ls, n |-> Total(ar, ls), pairs |-> SetToSeq(PairsOfArr(ar, ls))]
    : M \in Stars }

AllCases == UNION { ArrCases(k) : k \in 2..MaxK } \cup StarCases
ASSUME ndJsonSerialize(IOEnv.OUT_FILE, SetToSeq(AllCases))
ASSUME PrintT(<<"GENERATED", Cardinality(AllCases)>>)
=============================================================================
