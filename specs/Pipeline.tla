------------------------------ MODULE Pipeline ------------------------------
(***************************************************************************)
(* rnapolis.annotator.main (command-line tool `annotator`) end to end:     *)
(* one run reads a structure, annotates it ONCE and hands the same result  *)
(* to every output the options ask for.  Beyond the listed properties      *)
(* (growth item of DESIGN 10.7); the artefacts' own content is the         *)
(* business of C01-C16 - this module states how the artefacts of ONE run   *)
(* hang together (section 2) and models the tool's option protocol         *)
(* (section 3, checked by TLC over every option subset).                   *)
(***************************************************************************)
EXTENDS Naturals, Sequences, FiniteSets, TLC

\* ------------------------------------------------------------------ 1. options and artefacts
FileOptions == {"csv", "json", "bpseq", "pml", "inter-stem-csv", "stems-csv"}
PrintOptions == {"extended", "all-dot-brackets"}
Options == FileOptions \cup PrintOptions \cup {"find-gaps"}

\* what is printed: the extended notation wins over the list of all notations, the plain one is the default
Printed(opts) == IF "extended" \in opts THEN "extended"
                 ELSE IF "all-dot-brackets" \in opts THEN "all" ELSE "plain"

\* files that must exist after the run: one per file option - the two tables only when there is something
\* to put into them (the tool writes no empty table)
MustExist(opts, nstems, ninter) ==
  { o \in opts \cap FileOptions : /\ (o = "stems-csv" => nstems > 0)
                                  /\ (o = "inter-stem-csv" => ninter > 0) }

\* ------------------------------------------------------------------ 3. the option protocol as a state machine
VARIABLES opts, pc, files, printed, version, used
vars == <<opts, pc, files, printed, version, used>>
\* version: how many times the run has computed an annotation; used[a]: the version artefact a was made from

Order == <<"csv", "json", "bpseq", "print", "pml", "inter-stem-csv", "stems-csv">>

Init == /\ opts \in SUBSET Options
        /\ pc = 0 /\ files = {} /\ printed = "" /\ version = 0 /\ used = <<>>

Annotate == /\ pc = 0 /\ version' = version + 1 /\ pc' = 1
            /\ UNCHANGED <<opts, files, printed, used>>

Emit == /\ pc \in 1..Len(Order)
        /\ LET a == Order[pc] IN
           IF a = "print"
           THEN /\ printed' = Printed(opts) /\ used' = Append(used, <<"stdout", version>>) /\ files' = files
           ELSE IF a \in opts
                THEN /\ files' = files \cup {a} /\ used' = Append(used, <<a, version>>) /\ printed' = printed
                ELSE UNCHANGED <<files, printed, used>>
        /\ pc' = pc + 1
        /\ UNCHANGED <<opts, version>>

Next == Annotate \/ Emit
Spec == Init /\ [][Next]_vars

Done == pc = Len(Order) + 1
\* every file option produced its file, nothing else was written, and something was printed
InvFilesAsAsked == Done => files = opts \cap FileOptions
InvPrintedOnce  == Done => /\ printed = Printed(opts)
                           /\ Cardinality({ n \in 1..Len(used) : used[n][1] = "stdout" }) = 1
\* one annotation feeds every artefact of the run
InvOneAnnotation == \A n \in 1..Len(used) : used[n][2] = 1
=============================================================================
