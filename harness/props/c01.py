"""C01 - BPSEQ <-> dot-bracket conversion is lossless for every encoder."""
from .. import lib, secstruct as ss

PID = "C01"
TIERS = {
    "quick":    dict(mc="MC_SecStruct_7.cfg", maxn=9, rnd=1500, dbx=(7, 3), dbr=600, ms=300),
    "thorough": dict(mc="MC_SecStruct_8.cfg", maxn=12, rnd=40000, dbx=(9, 3), dbr=20000, ms=5000),
}


def domain_check(cases, maxn, sc):
    import json
    f = sc.path("domain.json")
    with open(f, "w") as fh:
        json.dump({"maxn": maxn, "items": [{"n": c["n"], "pairs": c["pairs"]} for c in cases]}, fh)
    r = lib.tlc("Domain_SecStruct", "Empty.cfg", workers=1, env={"TRACE_FILE": f}, scratch=sc, xmx="8g",
                tag="domain")
    if '<<"DOMAIN", TRUE, %d>>' % len(cases) not in r["out"]:
        raise lib.MachineryError("recorded inputs are not the spec's exhaustive domain:\n" + r["out"][-1500:])
    return True


def run(tier, pid=PID, family="C01", recorder=None, extra_cases=None):
    t = TIERS[tier]
    rep = lib.Report(pid, tier, "model_checking")
    with lib.Scratch(pid.lower()) as sc:
        r = lib.mc("MC_SecStruct", t["mc"], sc)
        rep.add_mc(r, "encoder algorithms (scan, FCFS, MILP-any-optimum, permutation greedy, fill) on every "
                      "matching; clauses + lemmas L1-L6 as invariants",
                   min_actions=("ScanStep", "FcfsStep", "Milp", "PermGreedy", "FillStep"))
        ex = ss.gen_matchings(t["maxn"], sc)
        rnd = ss.random_cases(t["rnd"], lib.seed())
        bp = ex + rnd
        rec = lib.pmap(ss._rec_bp_c01, bp)
        domain_check([c for c in rec if c["id"].startswith("m")], t["maxn"], sc)
        db = ss.db_cases_exhaustive(*t["dbx"]) + ss.db_cases_type_pairs() + ss.db_cases_random(t["dbr"], lib.seed())
        rec_db = lib.pmap(ss.record_db, db)
        ms = ss.ms_cases(t["ms"], lib.seed())
        rec_ms = [ss.record_ms(c) for c in ms]
        allc = rec + rec_db + rec_ms
        res = lib.trace_validate("Trace_SecStruct", "Trace_SecStruct_C01.cfg", allc, sc)
        rep.add_trace(res, {c["id"]: c for c in allc}, "C01")
        cov = rep.cov
        cov["exhaustive"] = True
        cov["rule"] = (f"every matching on 1..n for n<={t['maxn']} (TLC Gen_SecStruct, {len(ex)} structures; domain "
                       f"re-checked by Domain_SecStruct) + {len(rnd)} seeded random structures n in 10..120 with planted "
                       f"crossing ladders up to 30 levels; converse: every balanced text over {t['dbx'][1]} bracket types "
                       f"up to length {t['dbx'][0]} + {t['dbr']} random texts over all 30 types; {len(ms)} multi-strand "
                       "texts. Non-trivial = distinct structure/text with at least one crossing pair of pairs.")

        def crossing(pairs):
            return any(a < c < b < d or c < a < d < b for x, (a, b) in enumerate(pairs) for (c, d) in pairs[x + 1:])
        cov["distinct_nontrivial"] = len({(c["n"], tuple(map(tuple, c["pairs"]))) for c in bp if crossing(c["pairs"])})
        cov["max_levels_seen"] = max((max((ss.OPEN.find(ch) for ch in c["fcfs"]["db"] if ch in ss.OPEN), default=0) + 1
                                      for c in rec), default=0)
        cov["samples"] = [{k: c[k] for k in ("id", "n", "pairs", "optimal", "fcfs")} for c in rec[len(ex) - 2:len(ex) + 1]] \
            + rec_db[-1:] + rec_ms[-1:]
        rep.assumptions += ["projection of DotBracket/BpSeq objects to JSON (lists of 1-character strings, ints) is faithful",
                            "structures needing more than 30 levels are outside the statement and not generated",
                            "PYTHONHASHSEED fixed by ./check for reproducibility"]
    return rep.finish()


def replay(doc):
    """Re-record the failing case against the current tree and re-validate it."""
    case = doc.get("case")
    if not case:
        print(doc.get("tlc_output_tail", ""))
        return run("quick")
    rep = lib.Report(PID, "quick", "model_checking", evidence=False)
    with lib.Scratch("c01r") as sc:
        base = {k: case[k] for k in case if k in ("id", "kind", "n", "pairs", "seq", "db", "instrands", "headers")}
        rec = {"bp": ss._rec_bp_c01, "db": ss.record_db, "ms": ss.record_ms}[case["kind"]](base)
        res = lib.trace_validate("Trace_SecStruct", "Trace_SecStruct_C01.cfg", [rec], sc, chunks=1)
        rep.add_trace(res, {rec["id"]: rec}, "C01")
        rep.cov["samples"] = [rec]
        rep.cov["distinct_nontrivial"] = 1
    return rep.finish()
