---------------------------- MODULE Gen_PdbText ----------------------------
(* Generation mode: exports the column layout tables and the value-shape palettes of PdbText
   as JSON.  The harness's own PDB emitter and its case generator are driven by this file, never
   by the repository's code. *)
EXTENDS PdbText, Json, IOUtils
Consts ==
  [ atom_layout |-> AtomLayout, atom_fields |-> AtomFieldSeq, ter_layout |-> TerLayout, model_layout |-> ModelLayout,
    line_width |-> LineWidth,
    atom_kinds |-> AtomKinds, charges |-> ChargePal, alts |-> AltPal, icodes |-> ICodePal, resnums |-> ResNumPal,
    resnames |-> ResNamePal, chains |-> ChainPal, recs |-> RecPal, coords |-> CoordPal, occs |-> OccPal, bs |-> BPal,
    coord_min |-> CoordMin, coord_max |-> CoordMax, serial_max |-> SerialMax, model_max |-> ModelMax ]
ASSUME JsonSerialize(IOEnv.OUT_FILE, Consts)
ASSUME PrintT(<<"GENERATED", Len(AtomKinds)>>)
=============================================================================
