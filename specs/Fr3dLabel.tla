------------------------------ MODULE Fr3dLabel ------------------------------
(***************************************************************************)
(* The FR3D interaction-label language of property C19, as a FINITE set of *)
(* character sequences with its classification (single source of truth).   *)
(*                                                                         *)
(*   label ::= ["n"] core ["a"]                                            *)
(*   core  ::= one of the 18 Leontis-Westhof classes, every letter in      *)
(*             either case (c|t|C|T)(W|H|S|w|h|s)^2          144 spellings *)
(*           | s33 | s35 | s53 | s55                            4 stackings *)
(*           | dBR   (d a decimal digit)                       10 base-ribose *)
(*           | dBPh  (d a decimal digit)                    10 base-phosphate *)
(*                                                                         *)
(* 168 cores x 4 decorations = 672 labels.  Every other string is "other". *)
(* Text is a sequence of 1-character strings (TLC strings are atomic).     *)
(***************************************************************************)
EXTENDS Naturals, Sequences, FiniteSets, TLC

Digits   == {"0", "1", "2", "3", "4", "5", "6", "7", "8", "9"}
Letters  == {"c", "t", "C", "T", "W", "H", "S", "w", "h", "s", "n", "a", "B", "P", "R"}
Alphabet == Letters \cup Digits                 \* the 25-symbol FR3D label alphabet

\* letter-case normalisation of the two positions of a Leontis-Westhof name
CisTrans == [x \in {"c", "C", "t", "T"} |-> IF x \in {"c", "C"} THEN "c" ELSE "t"]
EdgeOf   == [x \in {"W", "w", "H", "h", "S", "s"} |->
               IF x \in {"W", "w"} THEN "W" ELSE IF x \in {"H", "h"} THEN "H" ELSE "S"]

LWNames == { a \o b \o c : a \in {"c", "t"}, b \in {"W", "H", "S"}, c \in {"W", "H", "S"} }   \* 18 strings

\* join a sequence of 1-character strings into one TLC string
RECURSIVE Str(_)
Str(s) == IF s = <<>> THEN "" ELSE Head(s) \o Str(Tail(s))

\* ---- cores with their <<category, class>> ------------------------------
LWCores    == { <<a, b, c>> : a \in DOMAIN CisTrans, b \in DOMAIN EdgeOf, c \in DOMAIN EdgeOf }
StackCores == { <<"s", a, b>> : a \in {"3", "5"}, b \in {"3", "5"} }
BRCores    == { <<d, "B", "R">> : d \in Digits }
BPhCores   == { <<d, "B", "P", "h">> : d \in Digits }
Cores      == LWCores \cup StackCores \cup BRCores \cup BPhCores

StackClass(c) == IF c[2] = "3" /\ c[3] = "3" THEN "downward"
                 ELSE IF c[2] = "5" /\ c[3] = "5" THEN "upward"
                 ELSE IF c[2] = "3" /\ c[3] = "5" THEN "outward"
                 ELSE "inward"

CoreClass(c) ==
  IF c \in LWCores THEN <<"base-pair", CisTrans[c[1]] \o EdgeOf[c[2]] \o EdgeOf[c[3]]>>
  ELSE IF c \in StackCores THEN <<"stacking", StackClass(c)>>
  ELSE IF c \in BRCores THEN <<"base-ribose", c[1] \o "BR">>
  ELSE <<"base-phosphate", c[1] \o "BPh">>

Decorations(c) == { c, <<"n">> \o c, c \o <<"a">>, <<"n">> \o c \o <<"a">> }

\* the language as a set of <<label, <<category, class>>>> (cached: zero-arity definitions)
LabelPairs == UNION { { <<l, CoreClass(c)>> : l \in Decorations(c) } : c \in Cores }
Language   == { p[1] : p \in LabelPairs }
LabelMap   == [l \in Language |-> (CHOOSE p \in LabelPairs : p[1] = l)[2]]

Other == <<"other", "">>
Classify(l) == IF l \in Language THEN LabelMap[l] ELSE Other

Categories == {"base-pair", "stacking", "base-ribose", "base-phosphate", "other"}

\* sanity of the grammar itself (checked by MC_ExternalImport as an ASSUME)
GrammarSane ==
  /\ Cardinality(Alphabet) = 25
  /\ Cardinality(LWCores) = 144 /\ Cardinality(Cores) = 168
  /\ Cardinality(LabelPairs) = 672 /\ Cardinality(Language) = 672      \* unambiguous
  /\ \A l \in Language : \A k \in 1..Len(l) : l[k] \in Alphabet
  /\ { LabelMap[l][2] : l \in { x \in Language : LabelMap[x][1] = "base-pair" } } = LWNames

\* ---- counting strings ---------------------------------------------------
RECURSIVE Pow(_, _)
Pow(b, e) == IF e = 0 THEN 1 ELSE b * Pow(b, e - 1)
RECURSIVE SumPow(_, _)
SumPow(b, e) == IF e = 0 THEN 1 ELSE Pow(b, e) + SumPow(b, e - 1)      \* b^0 + ... + b^e

IsPrefixOf(p, l) == Len(p) <= Len(l) /\ \A k \in 1..Len(p) : l[k] = p[k]

\* labels of the language inside the block  { p \o w : Len(w) <= t }
LabelsInBlock(p, t) == { l \in Language : IsPrefixOf(p, l) /\ Len(l) <= Len(p) + t }
=============================================================================
