------------------------- MODULE Gen_TorsionLattice -------------------------
(* Generation mode (spec -> code): TLC enumerates every non-degenerate 4-tuple of lattice
   points (coordinates in -R..R; p2 at the origin when P2Origin) together with the exact cell
   of its IUPAC torsion, and writes them as NDJSON for the harness to run the real code on. *)
EXTENDS TorsionLattice, Json, IOUtils, TLC, SequencesExt
CONSTANTS R, P2Origin
Dom      == NonDegTuples(R, P2Origin)
Cases    == { [p |-> p, cell |-> IUPACCell(p)] : p \in Dom }
Hist     == [k \in Cells |-> Cardinality({ c \in Cases : c.cell = k })]
ASSUME ndJsonSerialize(IOEnv.OUT_FILE, SetToSeq(Cases))
ASSUME PrintT(<<"GENERATED", Cardinality(Cases), Cardinality(Tuples(R, P2Origin))>>)
ASSUME PrintT(<<"HIST", [k \in 1..16 |-> Hist[k - 8]]>>)
=============================================================================
