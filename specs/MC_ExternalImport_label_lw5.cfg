SPECIFICATION Spec
CONSTANT Mode = "label"
CONSTANT McAlphabet = {"c", "T", "W", "h", "s", "n", "a"}
CONSTANT McMaxLen = 5
CONSTANT McUnitKinds = {"plain"}
CONSTANT McTabKinds = {"three"}
CONSTANT McLabelKinds = {"lw"}
CONSTANT McWraps = {"none"}
CONSTANT MaxLines = 0
CONSTANT Contained = {"ValueError", "IndexError"}
CONSTANT McNameKinds = {"exact"}
CONSTANT McLwKinds = {"valid"}
CONSTANT MaxPairs = 0
CONSTANT McStackKinds = {"exact"}
CONSTANT MaxStackLen = 0
CONSTANT MaxStacks = 0
CONSTANT LwTest = "members"
INVARIANT LabelMapExact
INVARIANT LabelStepsTyped
CHECK_DEADLOCK FALSE
