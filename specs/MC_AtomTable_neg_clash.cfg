SPECIFICATION Spec
CONSTANT MaxLines = 2
CONSTANT ModelNums = {1, 2}
CONSTANT KeyIds = {1, 3}
CONSTANT Occs = {40, 60}
CONSTANT PointIds = {1, 2, 4}
CONSTANT IcNulls = {"?"}
CONSTANT OcNulls = {"?"}
CONSTANT DedupKeyIncludesModel = TRUE
CONSTANT ClashWithinModelOnly = FALSE
CONSTANT BothNullMarkers = TRUE
INVARIANT CompleteInv
CHECK_DEADLOCK FALSE
