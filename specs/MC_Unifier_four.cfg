SPECIFICATION Spec
CONSTANT NFiles = 4
CONSTANT MaxRes = 1
CONSTANT RNs = {"A", "C"}
CONSTANT AtomSeqs <- AtomSeqs2
CONSTANT Ids <- Ids4
CONSTANT EmptyWrite = "crash"
INVARIANT InvFunction
INVARIANT InvRefusal
INVARIANT InvEmpty
INVARIANT InvSameShape
INVARIANT InvAtoms
CHECK_DEADLOCK FALSE
