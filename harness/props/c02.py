"""C02 - pseudoknot order assignment is a proper and optimal level assignment."""
from .. import lib, secstruct as ss
from .c01 import domain_check

PID = "C02"
TIERS = {
    "quick":    dict(mc="MC_SecStruct_7.cfg", maxn=9, knotted=300, rnd=300,
                     stems=[dict(maxk=4, lens=(1, 3, 5), mincross=3, stars=(9, 10, 12, 30))]),
    "thorough": dict(mc="MC_SecStruct_8.cfg", maxn=11, knotted=5000, rnd=4000,
                     stems=[dict(maxk=4, lens=(1, 2, 3, 5, 8), mincross=1, stars=(9, 10, 11, 12, 15)),
                            dict(maxk=5, lens=(1, 3), mincross=3, stars=())]),
}


def crossing(pairs):
    return any(a < c < b < d or c < a < d < b for x, (a, b) in enumerate(pairs) for (c, d) in pairs[x + 1:])


def run(tier):
    t = TIERS[tier]
    rep = lib.Report(PID, tier, "model_checking")
    with lib.Scratch("c02") as sc:
        r = lib.mc("MC_SecStruct", t["mc"], sc)
        rep.add_mc(r, "MILP modelled as 'solver returns ANY optimum over levels 0..maxdeg'; invariant MilpOptimal "
                      "(objective = declarative optimum by components, stable, >= FCFS, PK-free => round only), lemmas L4 L5",
                   min_actions=("Milp", "FillStep"))
        ex = ss.gen_matchings(t["maxn"], sc)
        kn = [c for c in ss.knotted_cases(t["knotted"], lib.seed()) if ss.max_component(c["pairs"])[0] <= 10]
        # large random structures: only the polynomial consequences are decided (the spec skips brute force itself)
        rnd = [c for c in ss.random_cases(t["rnd"], lib.seed() + 1, tag="p") if ss.max_component(c["pairs"])[0] <= 10]
        # stem-level family (TLC Gen_StemFamily): every arrangement of <= K stems x stem lengths, and stars
        sf = []
        for j, fam in enumerate(t["stems"]):
            sf += ss.stem_family_cases(sc, fam["maxk"], fam["lens"], fam["mincross"], fam["stars"], tag=f"s{j}x")
        cases = ex + kn + rnd + sf + ss.clique_cases()
        rec = lib.pmap(ss._rec_bp_c02, cases)
        domain_check([c for c in rec if c["id"].startswith("m")], t["maxn"], sc)
        res = lib.trace_validate("Trace_SecStruct", "Trace_SecStruct_C02.cfg", rec, sc)
        rep.add_trace(res, {c["id"]: c for c in rec}, "C02")
        cov = rep.cov
        cov["optimality_decided_by_bruteforce"] = res.get("extra", [0])[0]
        cov["exhaustive"] = True
        cov["rule"] = (f"every matching on 1..n, n<={t['maxn']} ({len(ex)}; TLC Gen_SecStruct, domain re-checked) + "
                       f"{len(kn)} seeded random multi-stem knotted structures (n 12..60) + {len(rnd)} larger random ones "
                       "with conflict components <= 10 stems + the stem-level family of Gen_StemFamily (" + str(len(sf)) + " structures: every "
                       "chord diagram of <= K stems x every choice of stem lengths from a palette, strands separated by one "
                       "unpaired nucleotide, and stars in which one stem is crossed by 10..16 others). TLC brute-forces the optimum over all proper assignments "
                       "[C -> 0..maxdeg(C)] per conflict component whenever the component has <= 7 stems and <= 100000 "
                       "candidates; otherwise only ProperLevels/NoLowerMove/NotWorseThanFcfs/PkFreeRoundOnly are decided. "
                       "Non-trivial = distinct structure with at least one pair of crossing stems (solver actually consulted).")
        cov["distinct_nontrivial"] = len({(c["n"], tuple(map(tuple, c["pairs"]))) for c in cases if crossing(c["pairs"])})
        cov["samples"] = [{k: c[k] for k in ("id", "n", "pairs", "optimal", "explicit")}
                          for c in (rec[len(ex) - 1], rec[len(ex)], rec[-1])]
        rep.assumptions += ["CBC is the only MILP back-end installed; HiGHS is absent, so BpSeq.dot_bracket takes the "
                            "LpSolverDefault branch; convert_to_dot_bracket(PULP_CBC_CMD) covers the explicit-solver entry",
                            "global optimality is decided only where TLC can brute-force it (components <= 7 stems)"]
    return rep.finish()


def replay(doc):
    case = doc.get("case")
    if not case:
        print(doc.get("tlc_output_tail", ""))
        return run("quick")
    rep = lib.Report(PID, "quick", "model_checking", evidence=False)
    with lib.Scratch("c02r") as sc:
        base = {k: case[k] for k in ("id", "kind", "n", "pairs", "seq", "opt_limit") if k in case}
        rec = ss._rec_bp_c02(base)
        res = lib.trace_validate("Trace_SecStruct", "Trace_SecStruct_C02.cfg", [rec], sc, chunks=1)
        rep.add_trace(res, {rec["id"]: rec}, "C02")
    return rep.finish()
