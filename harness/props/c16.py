"""C16 - the all-dot-brackets list is exactly the set of greedy-stable assignments."""
from .. import lib, secstruct as ss
from .c01 import domain_check
from .c02 import crossing

PID = "C16"
TIERS = {
    "quick":    dict(mc="MC_SecStruct_7.cfg", maxn=9, rnd=400, all_limit=7, perm_limit=6000),
    "thorough": dict(mc="MC_SecStruct_8.cfg", maxn=12, rnd=6000, all_limit=8, perm_limit=50000),
}
_LIM = {}


def _rec(case):
    return ss.record_bp(case, want=("all",), all_limit=_LIM["all_limit"], perm_limit=_LIM["perm_limit"])


def bound_cases():
    """Structures whose conflict group has exactly 8 stems (the statement's bound), with small
    maximum degree so that TLC can still enumerate StableSet: a chain, a caterpillar, a tree."""
    out = []
    # chain: stem k crosses stem k+1 only
    chain = [[1 + 3 * k, 5 + 3 * k] for k in range(8)]
    out.append((max(j for _, j in chain) + 1, chain))
    # two-pair stems in a chain, shifted
    c2 = []
    for k in range(8):
        a, b = 2 + 6 * k, 11 + 6 * k
        c2 += [[a, b], [a + 1, b - 1]]
    out.append((max(j for _, j in c2) + 2, c2))
    # one long stem crossed by three hairpins-with-crossers: degree 3 hub, 8 stems in the group
    hub = [[1, 30], [3, 32], [6, 34], [9, 36], [12, 38], [15, 40], [18, 42], [21, 44]]
    hub = [[1, 20], [3, 8], [6, 24], [10, 14], [12, 28], [16, 32], [22, 36], [30, 40]]
    out.append((41, hub))
    cases = []
    for k, (n, pairs) in enumerate(out):
        cases.append({"id": f"b8-{k}", "kind": "bp", "n": n, "pairs": sorted(pairs),
                      "seq": [ss.LETTERS[(i + k) % 4] for i in range(n)]})
    return [c for c in cases if ss.max_component(c["pairs"])[0] == 8]


def _rec8(case):
    return ss.record_bp(case, want=("all",), all_limit=8, perm_limit=50000)


def run(tier):
    t = TIERS[tier]
    _LIM.update(all_limit=t["all_limit"], perm_limit=t["perm_limit"])
    rep = lib.Report(PID, tier, "model_checking")
    with lib.Scratch("c16") as sc:
        r = lib.mc("MC_SecStruct", t["mc"], sc)
        rep.add_mc(r, "all_dot_brackets modelled as first-fit over ANY permutation of every conflict component, combined "
                      "freely; invariant PermStable, lemma L6 (GreedySet = StableSet), L3 FcfsStable, L5",
                   min_actions=("PermGreedy", "FcfsStep", "FillStep"))
        ex = ss.gen_matchings(t["maxn"], sc)
        rnd = ss.knotted_cases(t["rnd"], lib.seed() + 5, tag="g")
        cases = ex + rnd
        rec = [c for c in lib.pmap(_rec, cases)]
        b8 = bound_cases()
        if len(b8) < 2:
            raise lib.MachineryError("bound cases with an 8-stem conflict group could not be built")
        rec += lib.pmap(_rec8, b8)
        cases = cases + b8
        # through the 3D -> 2D mapping of corpus structures (Mapping2D3D.all_dot_brackets, then the BpSeq's own list)
        mfiles = ss.MAPPING_FILES_QUICK if tier == "quick" else ss.MAPPING_FILES_THOROUGH
        mrec = [c for cs in lib.pmap(ss.record_mapping_all, list(mfiles), chunksize=1) for c in cs]
        mrec = [c for c in mrec if ss.max_component(c["pairs"])[0] <= 8]
        rec += mrec
        cases = cases + mrec
        domain_check([c for c in rec if c["id"].startswith("m")], t["maxn"], sc)
        called = [c for c in rec if c["all_called"]]
        skipped = len(rec) - len(called)
        if any(not c["all_called"] for c in rec if c["id"].startswith("m")):
            raise lib.MachineryError("an exhaustive-tier structure was skipped by the affordability limit")
        res = lib.trace_validate("Trace_SecStruct", "Trace_SecStruct_C16.cfg", called, sc)
        rep.add_trace(res, {c["id"]: c for c in called}, "C16")
        cov = rep.cov
        cov["exhaustive"] = True
        cov["rule"] = (f"every matching on 1..n, n<={t['maxn']} ({len(ex)}; TLC Gen_SecStruct, domain re-checked) + "
                       f"{len(rnd)} seeded random knotted structures, of which {skipped} were not asked for all_dot_brackets "
                       f"because a conflict component exceeds {t['all_limit']} stems or the permutation product exceeds "
                       f"{t['perm_limit']} (the enumeration is factorial; the statement bounds groups at 8 stems). "
                       "TLC enumerates StableSet(C) over [C -> 0..maxdeg(C)] for every component and compares counts/"
                       "membership. Plus, for " + str(len(mfiles)) + " corpus structures, the list as rendered by Mapping2D3D."
                       "all_dot_brackets and the BpSeq's own list asked afterwards. Non-trivial = distinct structure with at least one pair of crossing stems.")
        cov["distinct_nontrivial"] = len({(c["n"], tuple(map(tuple, c["pairs"]))) for c in called if crossing(c["pairs"])})
        cov["max_list_length"] = max(len(c["all"]["list"]) for c in called)
        cov["max_component_stems"] = max(ss.max_component(c["pairs"])[0] for c in called)
        big = max(called, key=lambda c: len(c["all"]["list"]))
        cov["samples"] = [{"id": c["id"], "n": c["n"], "pairs": c["pairs"],
                           "all": ["".join(e["db"]) for e in c["all"]["list"]][:12]} for c in (called[len(ex) - 1], big)]
        rep.assumptions += ["list ORDER is not compared here (C14 decides determinism of the order)"]
    return rep.finish()


def replay(doc):
    case = doc.get("case")
    if not case:
        print(doc.get("tlc_output_tail", ""))
        return run("quick")
    _LIM.update(all_limit=8, perm_limit=50000)
    rep = lib.Report(PID, "quick", "model_checking", evidence=False)
    with lib.Scratch("c16r") as sc:
        if str(case["id"]).startswith("xmap-"):
            name = case["id"][len("xmap-"):].rsplit("-", 1)[0]
            rec = [c for c in ss.record_mapping_all(name) if c["id"] == case["id"]][0]
        else:
            rec = _rec({k: case[k] for k in ("id", "kind", "n", "pairs", "seq")})
        res = lib.trace_validate("Trace_SecStruct", "Trace_SecStruct_C16.cfg", [rec], sc, chunks=1)
        rep.add_trace(res, {rec["id"]: rec}, "C16")
    return rep.finish()
