SPECIFICATION Spec
CONSTANT Part = "pairs"
CONSTANT NRes = 3
CONSTANT MaxLabels = 3
CONSTANT MaxCount = 3
CONSTANT MaxO2 = 1
CONSTANT O2Twice = FALSE
CONSTANT StackFlagsFull = "few"
INVARIANT EdgeExclusive
INVARIANT PairMaximal
INVARIANT PairSound
CHECK_DEADLOCK FALSE
