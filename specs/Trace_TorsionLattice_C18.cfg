SPECIFICATION Spec
CONSTANT Tol = 2
CONSTANT TolPhi = 3
CONSTANT MaxCoord = 2
CONSTANT MinARows = 5
CHECK_DEADLOCK FALSE
