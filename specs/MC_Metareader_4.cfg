SPECIFICATION Spec
CONSTANT CatNames = {"struct", "entity", "cell"}
CONSTANT MaxGiven = 4
INVARIANT InvResult
INVARIANT InvPrinted
INVARIANT InvCsv
INVARIANT InvListingWritesNothing
INVARIANT InvAbsentIsEmpty
INVARIANT InvKeysDistinct
CHECK_DEADLOCK FALSE
