"""C13 - dot-bracket generation survives every solver configuration and solver fault."""
import json

from .. import lib, poasolver as ps
from .c02 import crossing

PID = "C13"
TIERS = {"quick": dict(structs=16), "thorough": dict(structs=300)}


def run(tier):
    t = TIERS[tier]
    rep = lib.Report(PID, tier, "fault_enumeration")
    with lib.Scratch("c13") as sc:
        r = lib.mc("MC_PoaSolver", "MC_PoaSolver.cfg", sc, workers=4)
        rep.add_mc(r, "control automaton of dot_bracket/convert_to_dot_bracket over Entries x Configs x Faults x "
                      "{knotted, pk-free}; NeverRaises, NotOptimalImpliesFcfs, OkImpliesOptimal, EventsAsExpected, "
                      "ReplayAgrees, <>Done",
                   min_actions=("Select", "NoSolverFallback", "EmptyGraphShortcut", "Build", "SolveCalled",
                                "SolveReturns", "SolveRaises", "FallbackFcfs", "ReadBack"))
        nc = lib.mc("MC_PoaSolver", "MC_PoaSolver_AsImplemented.cfg", sc, workers=4, expect_violation="NeverRaises")
        rep.add_mc(nc, "negative control: fall-back sites that CALL the cached FCFS value (`self.fcfs()`) violate "
                       "NeverRaises", negative_control=True)
        structs = ps.structures(t["structs"], lib.seed())
        cases = ps.cells(structs)
        rec = lib.pmap(ps.record_call, cases)
        f = sc.path("domain.json")
        with open(f, "w") as fh:
            json.dump({"items": [{k: c[k] for k in ("sid", "entry", "cfg", "fault")} for c in rec]}, fh)
        d = lib.tlc("Domain_PoaSolver", "Empty.cfg", workers=1, env={"TRACE_FILE": f}, scratch=sc, tag="dom")
        if f'<<"DOMAIN", TRUE, {len(rec)}, {len(structs)}>>' not in d["out"]:
            raise lib.MachineryError("recorded cells are not the full Entries x Configs x Faults product:\n" + d["out"][-1500:])
        res = lib.trace_validate("Trace_PoaSolver", "Trace_PoaSolver.cfg", rec, sc)
        rep.add_trace(res, {c["id"]: c for c in rec}, "C13")
        cov = rep.cov
        cov["exhaustive"] = True
        cov["rule"] = (f"full product {len(ps.ENTRIES)} entries x {len(ps.CONFIGS)} configurations x {len(ps.FAULTS)} "
                       f"fault behaviours = 36 cells (completeness re-checked by Domain_PoaSolver) on each of "
                       f"{len(structs)} structures (conflict components <= 7 stems, a few pk-free). A case is non-trivial "
                       "when the structure is knotted (the solver path is actually taken); distinct = distinct "
                       "(structure, cell).")
        cov["distinct_nontrivial"] = len({c["id"] for c in rec if crossing(c["pairs"])})
        cov["cells"] = 36
        cov["structures"] = len(structs)
        cov["samples"] = [{k: c[k] for k in ("id", "n", "pairs", "entry", "cfg", "fault", "events", "result")}
                          for c in rec if c["sid"] == "s1" and c["cfg"] != "none"][:4]
        rep.assumptions += ["HiGHS is not installed: the 'highs' configuration is a harness fake that reports itself "
                            "available and delegates the actual solve to the bundled CBC",
                            "faults are injected through harness-side pulp.LpSolver subclasses and by patching "
                            "pulp.HiGHS_CMD / pulp.LpSolverDefault for the duration of one call; no source hooks"]
    return rep.finish()


def replay(doc):
    case = doc.get("case")
    if not case:
        print(doc.get("tlc_output_tail", ""))
        return run("quick")
    rep = lib.Report(PID, "quick", "fault_enumeration", evidence=False)
    with lib.Scratch("c13r") as sc:
        rec = ps.record_call({k: case[k] for k in ("id", "sid", "kind", "n", "pairs", "seq", "entry", "cfg", "fault")})
        res = lib.trace_validate("Trace_PoaSolver", "Trace_PoaSolver.cfg", [rec], sc, chunks=1)
        rep.add_trace(res, {rec["id"]: rec}, "C13")
    return rep.finish()
