---------------------------- MODULE MC_AtomTable ----------------------------
(***************************************************************************)
(* Design-level model of the residue-level structure reader                *)
(* (rnapolis.parser: parse_pdb / parse_cif -> filter_clashing_atoms ->      *)
(* read_3d_structure -> group_atoms), action by action:                    *)
(*   SeeModel(n)   a MODEL record / a new value of pdbx_PDB_model_num      *)
(*   SeeAtom(a)    one ATOM/HETATM record is decoded (icode and occupancy  *)
(*                 null markers) and appended to atoms_to_process          *)
(*   Eof           end of input                                            *)
(*   DedupeStep    one iteration of the unique_atoms loop                  *)
(*   ClashFilter   KD-tree pairs within 0.5 A, lower occupancy dropped     *)
(*   SelectModel(r) read_3d_structure's choice among the models left       *)
(*   Group         group_atoms: consecutive atoms with equal identity      *)
(* EVERY well-formed file of up to MaxLines lines over a small value       *)
(* palette is read, for every request; the clauses of AtomTable are        *)
(* invariants of the final state.                                          *)
(*                                                                         *)
(* Variant switches (Required = TRUE; AsImplemented = FALSE documents a    *)
(* genuine defect and must make the named invariant fail):                 *)
(*   DedupKeyIncludesModel   FALSE: key (label, auth, name) without model  *)
(*   ClashWithinModelOnly    FALSE: one KD-tree over the atoms of all models*)
(*   BothNullMarkers         FALSE: icode '.' kept, occupancy '?' raises   *)
(*                           ValueError, unknown occupancies are compared  *)
(***************************************************************************)
EXTENDS AtomPalette

CONSTANTS MaxLines, DedupKeyIncludesModel, ClashWithinModelOnly, BothNullMarkers

VARIABLES file,     \* the lines as written (the truth the clauses refer to)
          atoms,    \* atoms_to_process: the lines as the reader decoded them
          cur,      \* current model number (0: none seen yet)
          pc, di, H, kept, req, sel, res, err
vars == <<file, atoms, cur, pc, di, H, kept, req, sel, res, err>>

Fmt == "cif"

Init == /\ file = <<>> /\ atoms = <<>> /\ cur = 0 /\ pc = "read" /\ di = 1 /\ H = <<>>
        /\ kept = <<>> /\ req = 0 /\ sel = <<>> /\ res = <<>> /\ err = ""

SeeModel(n) ==
  /\ pc = "read" /\ n > cur /\ (cur # 0 => Len(file) > 0 /\ file[Len(file)].m = cur)
  /\ cur' = n
  /\ UNCHANGED <<file, atoms, pc, di, H, kept, req, sel, res, err>>

\* decoding of the null markers: both '?' and '.' mean "absent"
DecodeIcode(l) == IF l.ic # "" THEN l.ic
                  ELSE IF BothNullMarkers \/ l.icn = "?" THEN "" ELSE l.icn
OccRaises(l)   == ~BothNullMarkers /\ l.occ < 0 /\ l.ocn = "?"

SeeAtom(a) ==
  /\ pc = "read" /\ cur # 0 /\ Len(file) < MaxLines /\ a.m = cur
  /\ LET f2 == Append(file, a) IN
     /\ BlocksOK(f2, LAMBDA i : <<f2[i].m, ResKey(f2[i])>>)
     /\ file' = f2
  /\ IF OccRaises(a)
     THEN pc' = "raised" /\ err' = "ValueError" /\ UNCHANGED atoms
     ELSE atoms' = Append(atoms, [a EXCEPT !.ic = DecodeIcode(a)]) /\ UNCHANGED <<pc, err>>
  /\ UNCHANGED <<cur, di, H, kept, req, sel, res>>

Eof ==
  /\ pc = "read" /\ Len(file) > 0 /\ InDomain(file, 0)
  /\ pc' = "dedupe"
  /\ UNCHANGED <<file, atoms, cur, di, H, kept, req, sel, res, err>>

DedupeLoop ==
  /\ pc = "dedupe"
  /\ IF di <= Len(atoms)
     THEN LET s == DedupeStep(atoms, H, di, DedupKeyIncludesModel, BothNullMarkers) IN
          IF s.err # "" THEN pc' = "raised" /\ err' = s.err /\ UNCHANGED <<H, di>>
          ELSE H' = s.h /\ di' = di + 1 /\ UNCHANGED <<pc, err>>
     ELSE pc' = "clash" /\ UNCHANGED <<H, di, err>>
  /\ UNCHANGED <<file, atoms, cur, kept, req, sel, res>>

ClashFilterStep ==
  /\ pc = "clash"
  /\ kept' = Kept(atoms, H, ClashWithinModelOnly)
  /\ pc' = "select"
  /\ UNCHANGED <<file, atoms, cur, di, H, req, sel, res, err>>

SelectModelStep(r) ==
  /\ pc = "select" /\ (r = 0 \/ r \in Models(file))
  /\ req' = r /\ sel' = SelectModel(atoms, kept, r)
  /\ pc' = "group"
  /\ UNCHANGED <<file, atoms, cur, di, H, kept, res, err>>

GroupStep ==
  /\ pc = "group"
  /\ res' = Group(atoms, Fmt, sel)
  /\ pc' = "done"
  /\ UNCHANGED <<file, atoms, cur, di, H, kept, req, sel, err>>

Next == \/ \E n \in ModelNums : SeeModel(n)
        \/ \E a \in Palette : SeeAtom(a)
        \/ Eof \/ DedupeLoop \/ ClashFilterStep
        \/ \E r \in {0} \cup ModelNums : SelectModelStep(r)
        \/ GroupStep
Spec == Init /\ [][Next]_vars

\* ---------------------------------------------------------------- invariants (the clauses)
Done == pc = "done"
M    == Selected(file, req)

NullMarkersInv       == pc # "raised" /\ (Done => NullMarkersAbsent(res))
NeverAnotherModel    == Done => ModelTagOK(M, res) /\ ~FromOtherModel(file, M, res)
AtomsAsWritten       == Done /\ ModelTagOK(M, res) => AllSourced(file, M, res)
EveryAtomOnce        == Done => NoRepeats(res)
HighestOccupancyCopy == Done /\ AllSourced(file, M, res) => BestCopyKept(file, M, res)
ClashKeepsBestInv    == Done => ClashKeepsBest(file, M, res)
CompleteInv          == Done => Complete(file, M, res)
RequestedModelReturned == Done /\ req # 0 => ModelTagOK(M, res) /\ Complete(file, M, res) /\ res # <<>>
DefaultIsFirstModel  == Done /\ req = 0 => ModelTagOK(M, res) /\ Complete(file, M, res) /\ res # <<>>
GroupingInFileOrder  == Done /\ AllSourced(file, M, res) =>
                           ResiduesInFileOrder(file, M, res) /\ AtomsInFileOrder(file, M, res)
LabelAsWrittenInv    == Done => LabelAsWritten(file, M, Fmt, res)
\* the cascade used on recorded traces gives the same judgement as the separate clauses
CascadeOk            == Done => FirstBroken(file, Fmt, req, res, TRUE) = "ok"
\* the functional pipeline used to explain deviations on traces equals the action-by-action run
PipelineAgrees       == Done /\ BothNullMarkers =>
                           Pipeline(file, Fmt, req, DedupKeyIncludesModel, ClashWithinModelOnly, TRUE).res = res
=============================================================================
