--------------------------- MODULE Trace_SecStruct ---------------------------
(***************************************************************************)
(* Trace validation for the BPSEQ <-> dot-bracket family (C01, C02, C16).  *)
(* One TLC state per recorded case.  A case is what the real library       *)
(* returned for one input; every judgement is made here.                   *)
(*                                                                         *)
(*  kind "bp": input = matching on 1..n (+ sequence); recorded: optimal,   *)
(*             fcfs, all_dot_brackets (texts + their sequences + errors),  *)
(*             BPSEQ text entries and re-parsed entries                    *)
(*  kind "db": input = dot-bracket text; recorded: DotBracket.pairs,       *)
(*             BpSeq.from_dotbracket pairs, text after the round trip      *)
(*  kind "ms": input = strand texts; recorded: MultiStrandDotBracket       *)
(***************************************************************************)
EXTENDS SecStruct, Json, IOUtils

CONSTANTS Family,        \* "C01" | "C02" | "C16" : which clause family to evaluate
          MaxBFStems,    \* brute-force optimum only for components up to this many stems ...
          MaxBFSpace     \* ... and at most this many candidate assignments per component

Doc   == JsonDeserialize(IOEnv.TRACE_FILE)
Trace == Doc.cases

VARIABLES idx, cnt
vars == <<idx, cnt>>

\* ------------------------------------------------------------------ helpers
RECURSIVE Pow(_, _)
Pow(b, e) == IF e = 0 THEN 1 ELSE b * Pow(b, e - 1)
Space(C)  == Pow(MaxDeg(C) + 1, Cardinality(C))
Feasible(C, maxStems) == Cardinality(C) <= maxStems /\ Space(C) <= MaxBFSpace
RECURSIVE ProdOver(_, _)
ProdOver(S, g) == IF S = {} THEN 1 ELSE LET x == CHOOSE y \in S : TRUE IN g[x] * ProdOver(S \ {x}, g)
SeqToSet(s) == { s[k] : k \in 1..Len(s) }

\* ------------------------------------------------------------------ C01: one encoder
\* e = [err |-> "", seq |-> <<chars>>, db |-> <<chars>>]
EncFail(c, m, e) ==
  IF e.err # "" THEN "NoException"
  ELSE IF e.seq # c.seq THEN "SeqKept"
  ELSE IF Len(e.db) # c.n THEN "SeqLen"
  ELSE IF ~AlphabetOK(e.db) THEN "AlphabetOK"
  ELSE LET d == Decode(e.db) IN
       IF ~d.balanced THEN "Balanced"
       ELSE IF d.pairs # m THEN "DecodeExact"
       ELSE IF ~NoCrossSameType(e.db, m) THEN "NoCrossSameType"
       ELSE "ok"

\* encoders of a bp case, in a fixed order: <<name, record>>
Encoders(c) == (IF c.optimal_called THEN << <<"optimal", c.optimal>> >> ELSE <<>>) \o << <<"fcfs", c.fcfs>> >>
               \o [k \in 1..Len(c.all.list) |-> <<"all", c.all.list[k]>>]

FirstBad(c, m, encs) ==
  LET bad == { k \in 1..Len(encs) : EncFail(c, m, encs[k][2]) # "ok" } IN
  IF bad = {} THEN <<"ok">>
  ELSE LET k == Min(bad) IN <<"fail", EncFail(c, m, encs[k][2]), encs[k][1]>>

TextFail(c, m) ==
  IF c.text.err # "" THEN "NoException"
  ELSE IF Len(c.text.entries) # c.n THEN "TextLen"
  ELSE IF \E i \in 1..c.n : c.text.entries[i] # <<i, c.seq[i], Partner(m, i)>> THEN "TextFaithful"
  ELSE IF c.text.reparsed # c.text.entries THEN "TextRoundTrip"
  ELSE IF ~c.text.equal THEN "TextRoundTripEq"
  ELSE "ok"

C01bp(c) ==
  LET m == PairSet(c.pairs) IN
  IF ~IsMatching(m, c.n) \/ Len(c.seq) # c.n THEN <<"fail", "InputIsMatching", "harness">>
  ELSE IF c.all.err # "" THEN <<"fail", "NoException", "all">>
  ELSE LET v == FirstBad(c, m, Encoders(c)) IN
       IF v[1] # "ok" THEN v
       ELSE IF TextFail(c, m) # "ok" THEN <<"fail", TextFail(c, m), "text">>
       ELSE <<"ok">>

\* converse: text -> pairs -> BPSEQ -> text
C01db(c) ==
  IF c.err # "" THEN <<"fail", "NoException", "from_dotbracket">>
  ELSE IF ~AlphabetOK(c.db) THEN <<"fail", "InputAlphabet", "harness">>
  ELSE LET d == Decode(c.db) IN
  IF ~d.balanced THEN <<"fail", "InputBalanced", "harness">>
  ELSE IF { <<p[1] + 1, p[2] + 1>> : p \in PairSet(c.dbpairs) } # d.pairs THEN <<"fail", "DbToPairs", "DotBracket.pairs">>
  ELSE IF Len(c.dbpairs) # Cardinality(d.pairs) THEN <<"fail", "DbToPairsOnce", "DotBracket.pairs">>
  ELSE IF Len(c.entries) # Len(c.db) THEN <<"fail", "BpseqLen", "from_dotbracket">>
  ELSE IF \E i \in 1..Len(c.db) : c.entries[i] # <<i, c.seq[i], Partner(d.pairs, i)>>
       THEN <<"fail", "DbToBpseqPairs", "from_dotbracket">>
  ELSE LET e == [err |-> c.back.err, seq |-> c.back.seq, db |-> c.back.db]
           f == EncFail([seq |-> c.seq, n |-> Len(c.db)], d.pairs, e) IN
       IF f # "ok" THEN <<"fail", "DbRoundTrip", f>>
       ELSE IF c.wopk.err # "" THEN <<"fail", "NoException", "DotBracket.without_pseudoknots">>
       ELSE IF c.wopk.db # RoundOnly(c.db) THEN <<"fail", "DbWithoutPseudoknots", "DotBracket.without_pseudoknots">>
       ELSE <<"ok">>

\* multi-strand text: strands concatenate to the input, numbering is contiguous
RECURSIVE Concat(_)
Concat(ss) == IF ss = <<>> THEN <<>> ELSE Head(ss) \o Concat(Tail(ss))
C01ms(c) ==
  IF c.err # "" THEN <<"fail", "NoException", "MultiStrandDotBracket">>
  ELSE LET k == Len(c.instrands) IN
  IF Len(c.strands) # k THEN <<"fail", "MultiStrandCount", "MultiStrandDotBracket">>
  ELSE IF \E s \in 1..k : c.strands[s].sequence # c.instrands[s].sequence
                       \/ c.strands[s].structure # c.instrands[s].structure
       THEN <<"fail", "MultiStrandTexts", "MultiStrandDotBracket">>
  ELSE IF c.sequence # Concat([s \in 1..k |-> c.instrands[s].sequence])
       \/ c.structure # Concat([s \in 1..k |-> c.instrands[s].structure])
       THEN <<"fail", "MultiStrandConcat", "MultiStrandDotBracket">>
  ELSE IF \E s \in 1..k :
            \/ c.strands[s].first # 1 + Len(Concat([t \in 1..(s - 1) |-> c.instrands[t].sequence]))
            \/ c.strands[s].last # Len(Concat([t \in 1..s |-> c.instrands[t].sequence]))
       THEN <<"fail", "MultiStrandNumbering", "MultiStrandDotBracket">>
  ELSE IF { <<p[1] + 1, p[2] + 1>> : p \in PairSet(c.pairs) } # Decode(c.structure).pairs
       THEN <<"fail", "MultiStrandPairs", "MultiStrandDotBracket">>
  ELSE <<"ok">>

\* ------------------------------------------------------------------ C02
C02bp(c) ==
  LET m == PairSet(c.pairs)  R == Regions(m)  db == c.optimal.db IN
  IF ~IsMatching(m, c.n) THEN <<"fail", "InputIsMatching", "harness">>
  ELSE LET f1 == EncFail(c, m, c.optimal) IN
  IF f1 # "ok" THEN <<"fail", IF f1 = "NoCrossSameType" THEN "ProperLevels" ELSE f1, "optimal">>
  ELSE IF ~Knotted(R) /\ \E i \in 1..c.n : db[i] \notin {"(", ")", "."} THEN <<"fail", "PkFreeRoundOnly", "optimal">>
  ELSE IF ~StemUniform(db, R) THEN <<"fail", "StemOnOneLevel", "optimal">>
  ELSE IF ~Stable(R, LevelsOf(db, R)) THEN <<"fail", "NoLowerMove", "optimal">>
  ELSE IF ObjText(db, m) < Obj(R, FcfsLevels(R)) THEN <<"fail", "NotWorseThanFcfs", "optimal">>
  \* necessary for optimality, decided without enumeration (also on components too big for the brute force)
  ELSE IF ~NoSwapImproves(R, LevelsOf(db, R)) THEN <<"fail", "Optimal", "two levels of a component could trade places">>
  ELSE IF (\A C \in KnotComponents(R) : Feasible(C, MaxBFStems)) /\ ObjText(db, m) # Opt(R)
       THEN <<"fail", "Optimal", "optimal">>
  ELSE IF c.explicit.err # "" THEN <<"fail", "NoException", "convert_to_dot_bracket">>
  ELSE LET f2 == EncFail(c, m, c.explicit) IN
  IF f2 # "ok" THEN <<"fail", f2, "convert_to_dot_bracket">>
  ELSE IF ObjText(c.explicit.db, m) # ObjText(db, m) THEN <<"fail", "ExplicitSolverSameObjective", "convert_to_dot_bracket">>
  ELSE <<"ok">>

\* was global optimality decided by brute force for this case?
C02decided(c) == LET R == Regions(PairSet(c.pairs)) IN \A C \in KnotComponents(R) : Feasible(C, MaxBFStems)

\* ------------------------------------------------------------------ C16
C16bp(c) ==
  LET m == PairSet(c.pairs)  R == Regions(m)  L == c.all.list
      KC == KnotComponents(R) IN
  IF ~IsMatching(m, c.n) THEN <<"fail", "InputIsMatching", "harness">>
  ELSE IF c.all.err # "" THEN <<"fail", "NoException", "all">>
  ELSE IF Len(L) = 0 THEN <<"fail", "NonEmpty", "all">>
  ELSE IF Cardinality(SeqToSet(L)) # Len(L) THEN <<"fail", "NoRepetition", "all">>
  ELSE LET v == FirstBad(c, m, [k \in 1..Len(L) |-> <<"all", L[k]>>]) IN
  IF v[1] # "ok" THEN <<"fail", "MembersLossless", v[2]>>
  ELSE IF \E k \in 1..Len(L) : ~StemUniform(L[k].db, R) THEN <<"fail", "StemOnOneLevel", "all">>
  ELSE IF \E k \in 1..Len(L) : ~Stable(R, LevelsOf(L[k].db, R)) THEN <<"fail", "MembersStable", "all">>
  ELSE IF (\A C \in KC : Feasible(C, 8))
          /\ Len(L) # ProdOver(KC, [C \in KC |-> Cardinality(StableSet(C))])
       THEN <<"fail", "AllStablePresent", "all">>
  ELSE IF ~Knotted(R) /\ L # << [err |-> "", seq |-> c.seq, db |-> Fill(c.n, R, [r \in R |-> 0])] >>
       THEN <<"fail", "PkFreeSingleton", "all">>
  ELSE IF c.optimal.err # "" \/ c.fcfs.err # "" THEN <<"fail", "NoException", "optimal/fcfs">>
  ELSE IF c.optimal \notin SeqToSet(L) THEN <<"fail", "ContainsOptimal", "all">>
  ELSE IF c.fcfs \notin SeqToSet(L) THEN <<"fail", "ContainsFcfs", "all">>
  ELSE IF c.fcfs.db # Fill(c.n, R, FcfsLevels(R)) THEN <<"fail", "FcfsIsFirstComeFirstServed", "fcfs">>
  ELSE <<"ok">>

\* ------------------------------------------------------------------ dispatch
Verdict(c) ==
  IF Family = "C01" THEN
       (IF c.kind = "bp" THEN C01bp(c) ELSE IF c.kind = "db" THEN C01db(c) ELSE C01ms(c))
  ELSE IF Family = "C02" THEN C02bp(c)
  ELSE C16bp(c)

Init == idx = 0 /\ cnt = [ok |-> 0, deviation |-> 0, fail |-> 0, decided |-> 0]

Next ==
  /\ idx < Len(Trace)
  /\ idx' = idx + 1
  /\ LET c == Trace[idx']  v == Verdict(c) IN
     /\ cnt' = [cnt EXCEPT ![v[1]] = @ + 1,
                           !.decided = @ + (IF Family = "C02" /\ c.kind = "bp" /\ C02decided(c) THEN 1 ELSE 0)]
     /\ (v[1] = "ok" \/ PrintT(<<"V", c.id>> \o v))
  /\ (idx' < Len(Trace) \/ PrintT(<<"SUMMARY", Len(Trace), cnt'.ok, cnt'.deviation, cnt'.fail, cnt'.decided>>))

Spec == Init /\ [][Next]_vars
=============================================================================
