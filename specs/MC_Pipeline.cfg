SPECIFICATION Spec
INVARIANT InvFilesAsAsked
INVARIANT InvPrintedOnce
INVARIANT InvOneAnnotation
CHECK_DEADLOCK FALSE
