SPECIFICATION Spec
CONSTANT TerOnModelChange = TRUE
CONSTANT CifChargeVerbatim = TRUE
CONSTANT ShapeLevel = 0
CONSTANT TerChainPadded = TRUE
CONSTANT BlankSecondChain = FALSE
CONSTANT MaxAtoms = 2
INVARIANT InvDomain
INVARIANT InvReadBack
INVARIANT InvLayout80
INVARIANT InvModelBracketing
INVARIANT InvTerAfterEveryChain
INVARIANT InvStrictGrammar
INVARIANT InvChargeDeviationExact
CHECK_DEADLOCK FALSE
