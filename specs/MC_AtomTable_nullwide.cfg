SPECIFICATION Spec
CONSTANT MaxLines = 3
CONSTANT ModelNums = {1}
CONSTANT KeyIds = {1, 3, 4}
CONSTANT Occs <- OccsNull
CONSTANT PointIds = {1, 4}
CONSTANT IcNulls = {"?", "."}
CONSTANT OcNulls = {"?", "."}
CONSTANT DedupKeyIncludesModel = TRUE
CONSTANT ClashWithinModelOnly = TRUE
CONSTANT BothNullMarkers = TRUE
INVARIANT NullMarkersInv
INVARIANT CascadeOk
INVARIANT PipelineAgrees
CHECK_DEADLOCK FALSE
