----------------------------- MODULE Gen_Annot -----------------------------
(* Constants export: the thresholds and tables of Annot.tla are written as JSON for the
   independent measurer (harness/measurer.py).  The harness never reads thresholds or
   tables from /repo. *)
EXTENDS Annot, Json, IOUtils
LettersSeq == <<"A", "G", "C", "U", "T">>
Constants ==
  [ micro |-> Micro,
    hbond_max_dist |-> HBondMaxDist, hbond_angle_lo |-> HBondAngleLo, hbond_angle_hi |-> HBondAngleHi,
    cis_trans_boundary |-> CisTransBoundary,
    stack_max_dist |-> StackMaxDist, stack_max_normal_angle |-> StackMaxNormalAngle,
    stack_max_offset_angle |-> StackMaxOffsetAngle,
    bph_max_dist |-> BphMaxDist, bph_torsion_boundary |-> BphTorsionBoundary,
    min_contacts |-> MinContacts, near_eps |-> NearEps,
    letters |-> LettersSeq, purines |-> Purines, edges |-> Edges,
    base_atoms |-> BaseAtoms, donors |-> Donors, base_acceptors |-> BaseAcceptors,
    ribose_acceptors |-> RiboseAcceptors, phosphate_acceptors |-> PhosphateAcceptors,
    edge_of |-> EdgeOf,
    normal_atoms_purine |-> NormalAtomsPurine, normal_atoms_pyrimidine |-> NormalAtomsPyrimidine,
    sugar_atom |-> SugarAtom, glycosidic_purine |-> GlycosidicAtom("A"), glycosidic_other |-> GlycosidicAtom("C"),
    bph_rule |-> BphRule,
    saenger |-> SaengerEntries, saenger_names |-> SaengerNames ]
ASSUME JsonSerialize(IOEnv.OUT_FILE, Constants)
ASSUME PrintT(<<"CONSTANTS", Cardinality(SaengerEntries)>>)
=============================================================================
