#!/usr/bin/env python3
"""tools/seed.py <PID> <change-dir> <seed-id> [--tier quick|thorough] [--also PID2,PID3] [--skip-tests]

Confirms a seeded breaking change (patch.diff + demo.py [+ notes.md] produced by an independent
sub-agent that never saw /verif) and files it under /verif/seeded/<seed-id>/:
  1. demo.py exits 0 on the unchanged tree and non-zero with the change applied;
  2. the repository's 45 baseline tests still pass with the change (throw-away worktree);
  3. the change is applied to /repo, `./check PID` is run, the change is undone straight afterwards.
Nothing is ever committed to /repo."""
import json
import os
import shutil
import subprocess
import sys
import tempfile
import xml.etree.ElementTree as ET

VERIF = os.path.dirname(os.path.dirname(os.path.abspath(__file__)))


def sh(cmd, **kw):
    return subprocess.run(cmd, shell=True, capture_output=True, text=True, **kw)


def demo(path, src):
    env = dict(os.environ, RNAPOLIS_SRC=src, PYTHONHASHSEED="0", LOGLEVEL="ERROR")
    p = subprocess.run(["/venv/bin/python", path], env=env, capture_output=True, text=True, timeout=1800)
    return p.returncode


def suite_with_patch(wt):
    if True:
        env = dict(os.environ, PYTHONPATH=f"{wt}/src", PYTHONHASHSEED="0")
        subprocess.run(["/venv/bin/python", "-m", "pytest", "-q", "-p", "no:cacheprovider", "--timeout=900",
                        "--continue-on-collection-errors", f"--junitxml={wt}/junit.xml", "tests"],
                       cwd=wt, env=env, capture_output=True, text=True, timeout=3600)
        base = set(json.load(open("/root/.vp/BASELINE.json"))["stable_pass"])
        passed = set()
        for tc in ET.parse(f"{wt}/junit.xml").getroot().iter("testcase"):
            if not any(ch.tag in ("failure", "error", "skipped") for ch in tc):
                passed.add(tc.get("classname") + "::" + tc.get("name"))
        return {"baseline_passing": len(base & passed), "baseline_broken": sorted(base - passed)}


def run_check(pid, tier, wt):
    p = sh(f"cd {VERIF} && VERIF_REPO={wt} ./check {pid} --tier {tier}", timeout=7200)
    lines = [l for l in (p.stdout + p.stderr).splitlines()
             if l.startswith(("VIOLATION", "KNOWN-FINDING", "MACHINERY", "[" + pid))]
    return {"pid": pid, "tier": tier, "exit": p.returncode, "violations": sum(l.startswith("VIOLATION") for l in lines),
            "first_lines": lines[:3], "summary": lines[-1] if lines else ""}


def main():
    a = sys.argv[1:]
    pid, cdir, sid = a[0], a[1], a[2]
    tier = a[a.index("--tier") + 1] if "--tier" in a else "quick"
    also = a[a.index("--also") + 1].split(",") if "--also" in a else []
    patch, dm = os.path.join(cdir, "patch.diff"), os.path.join(cdir, "demo.py")
    meta = {"seed_id": sid, "breaks_property": pid, "source": "independent sub-agent working in a scratch worktree, "
            "given only the property text", "ran": {},
            "how": "throw-away git worktree of /repo HEAD with the patch applied; demo.py via RNAPOLIS_SRC, repository "
                   "tests via PYTHONPATH, checks via VERIF_REPO (equivalent to git -C /repo apply ... checkout, but "
                   "does not disturb checks running against /repo at the same time)"}
    meta["ran"]["demo_unchanged_exit"] = demo(dm, "/repo/src")
    wt = tempfile.mkdtemp(prefix="seedwt-", dir="/tmp")
    os.rmdir(wt)
    try:
        if sh(f"git -C /repo worktree add --detach {wt} HEAD").returncode:
            print("cannot create worktree")
            return 2
        if sh(f"git -C {wt} apply {patch}").returncode:
            print("patch does not apply to /repo HEAD")
            return 2
        meta["repo_head"] = sh("git -C /repo rev-parse --short HEAD").stdout.strip()
        meta["ran"]["demo_changed_exit"] = demo(dm, f"{wt}/src")
        if "--skip-tests" not in a:
            meta["ran"]["repo_test_suite_with_change"] = suite_with_patch(wt)
        meta["ran"]["checks"] = [run_check(p, tier, wt) for p in [pid] + also]
    finally:
        sh(f"git -C /repo worktree remove --force {wt}")
        shutil.rmtree(wt, ignore_errors=True)
    shutil.rmtree(os.path.join(VERIF, "out", pid), ignore_errors=True)
    ok_demo = meta["ran"]["demo_unchanged_exit"] == 0 and meta["ran"]["demo_changed_exit"] != 0
    st = meta["ran"].get("repo_test_suite_with_change", {})
    ok_tests = st.get("baseline_broken") == [] if st else None
    det = [c for c in meta["ran"]["checks"] if c["exit"] == 1 and c["violations"] > 0]
    meta["confirmed"] = {"demo_fails_with_change_passes_without": ok_demo, "baseline_tests_still_pass": ok_tests,
                         "detected_by": [f"{c['pid']}:{c['tier']}" for c in det]}
    notes = os.path.join(cdir, "notes.md")
    meta["needs_to_manifest"] = ""
    if os.path.exists(notes):
        meta["needs_to_manifest"] = "see notes.md"
    print(json.dumps(meta, indent=1))
    if ok_demo and ok_tests is not False:
        d = os.path.join(VERIF, "seeded", sid)
        os.makedirs(d, exist_ok=True)
        if os.path.abspath(cdir) != os.path.abspath(d):
            shutil.copy(patch, os.path.join(d, "patch.diff"))
            shutil.copy(dm, os.path.join(d, "demo.py"))
            if os.path.exists(notes):
                shutil.copy(notes, os.path.join(d, "notes.md"))
        old = {}
        mp = os.path.join(d, "meta.json")
        if os.path.exists(mp):
            old = json.load(open(mp))
            meta["ran"]["earlier_checks"] = old.get("ran", {}).get("earlier_checks", []) + old.get("ran", {}).get("checks", [])
            if "repo_test_suite_with_change" not in meta["ran"] and "repo_test_suite_with_change" in old.get("ran", {}):
                meta["ran"]["repo_test_suite_with_change"] = old["ran"]["repo_test_suite_with_change"]
                meta["confirmed"]["baseline_tests_still_pass"] = old.get("confirmed", {}).get("baseline_tests_still_pass")
        with open(mp, "w") as f:
            json.dump(meta, f, indent=1)
        print("kept:", d)
    else:
        print("NOT kept (demo or tests did not confirm)")
    return 0


if __name__ == "__main__":
    sys.exit(main())
