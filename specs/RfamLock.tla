------------------------------ MODULE RfamLock ------------------------------
(***************************************************************************)
(* rnapolis.rfam_folder: main() hands every FASTA entry to a thread pool;  *)
(* each worker runs generate_consensus_secondary_structure, which takes    *)
(* ONE process-wide lock around ensure_cm (download / unpack / cmpress of  *)
(* the covariance model - must not run twice at once), releases it, and    *)
(* then searches on its own.  ensure_cm can fail (unknown --family, no     *)
(* network, cmpress error).  Beyond the listed properties (DESIGN 10.7).   *)
(* One action per step of the code; Variant selects what happens to the    *)
(* lock when ensure_cm raises:                                             *)
(*   "Required"      - the lock is released on every path (with lock:)     *)
(*   "AsImplemented" - acquire(); ensure_cm(); release() without finally:  *)
(*                     the lock stays held by a dead worker (negative      *)
(*                     control; this was the code before the fix)          *)
(* The main thread collects results in input order, re-raises the first    *)
(* error and leaves the pool (which waits for every worker).               *)
(***************************************************************************)
EXTENDS Integers, Sequences, FiniteSets, TLC

CONSTANTS N, Variant
Threads == 1..N

VARIABLES fails,      \* the workers whose ensure_cm raises (fixed by the world)
          pc,         \* worker -> "queued" | "cancelled" | "start" | "ensure" | "release" | "search" | "done" | "unwind" | "raised"
          holder,     \* 0 = lock free, else the worker holding it
          cmReady,    \* the covariance model files are in place
          main,       \* "collect" | "shutdown_ok" | "shutdown_err" | "exit_ok" | "exit_err"
          next,       \* the entry whose result the main thread waits for
          printed     \* entries printed so far, in order
vars == <<fails, pc, holder, cmReady, main, next, printed>>

Terminal(t) == pc[t] \in {"done", "raised", "cancelled"}
AllTerminal == \A t \in Threads : Terminal(t)

Init == /\ fails \in SUBSET Threads
        /\ pc = [t \in Threads |-> "queued"] /\ holder = 0 /\ cmReady = FALSE
        /\ main = "collect" /\ next = 1 /\ printed = <<>>

\* the pool picks the entry up (a free pool thread starts the worker function)
Start(t) == /\ pc[t] = "queued" /\ pc' = [pc EXCEPT ![t] = "start"]
            /\ UNCHANGED <<fails, holder, cmReady, main, next, printed>>
\* Start and Acquire in one step (for logs, which have no event for Start)
StartAcquire(t) == /\ pc[t] = "queued" /\ holder = 0
                   /\ holder' = t /\ pc' = [pc EXCEPT ![t] = "ensure"]
                   /\ UNCHANGED <<fails, cmReady, main, next, printed>>
Acquire(t) == /\ pc[t] = "start" /\ holder = 0
              /\ holder' = t /\ pc' = [pc EXCEPT ![t] = "ensure"]
              /\ UNCHANGED <<fails, cmReady, main, next, printed>>
EnsureOk(t) == /\ pc[t] = "ensure" /\ t \notin fails
               /\ cmReady' = TRUE /\ pc' = [pc EXCEPT ![t] = "release"]
               /\ UNCHANGED <<fails, holder, main, next, printed>>
EnsureFail(t) == /\ pc[t] = "ensure" /\ t \in fails
                 /\ pc' = [pc EXCEPT ![t] = IF Variant = "Required" THEN "unwind" ELSE "raised"]
                 /\ UNCHANGED <<fails, holder, cmReady, main, next, printed>>
\* the exception leaves the `with lock:` block: the lock is given back, then the worker is dead
ReleaseUnwind(t) == /\ pc[t] = "unwind" /\ holder = t
                    /\ holder' = 0 /\ pc' = [pc EXCEPT ![t] = "raised"]
                    /\ UNCHANGED <<fails, cmReady, main, next, printed>>
Release(t) == /\ pc[t] = "release" /\ holder = t
              /\ holder' = 0 /\ pc' = [pc EXCEPT ![t] = "search"]
              /\ UNCHANGED <<fails, cmReady, main, next, printed>>
Search(t) == /\ pc[t] = "search"
             /\ pc' = [pc EXCEPT ![t] = "done"]
             /\ UNCHANGED <<fails, holder, cmReady, main, next, printed>>

\* the main thread: results in input order; the first error ends the collection
Collect == /\ main = "collect" /\ next <= N /\ Terminal(next)
           /\ IF pc[next] = "done"
              THEN printed' = Append(printed, next) /\ next' = next + 1 /\ main' = main
              ELSE main' = "shutdown_err" /\ UNCHANGED <<next, printed>>
           \* the result iterator of executor.map cancels what has not been picked up yet when it re-raises
           /\ pc' = IF pc[next] = "done" THEN pc ELSE [t \in Threads |-> IF pc[t] = "queued" THEN "cancelled" ELSE pc[t]]
           /\ UNCHANGED <<fails, holder, cmReady>>
CollectDone == /\ main = "collect" /\ next = N + 1 /\ main' = "shutdown_ok"
               /\ UNCHANGED <<fails, pc, holder, cmReady, next, printed>>
\* leaving `with ThreadPoolExecutor()`: waits for every worker
Shutdown == /\ main \in {"shutdown_ok", "shutdown_err"} /\ AllTerminal
            /\ main' = (IF main = "shutdown_ok" THEN "exit_ok" ELSE "exit_err")
            /\ UNCHANGED <<fails, pc, holder, cmReady, next, printed>>
Exited == main \in {"exit_ok", "exit_err"}
Finished == Exited /\ UNCHANGED vars

Worker(t) == Start(t) \/ Acquire(t) \/ EnsureOk(t) \/ EnsureFail(t) \/ ReleaseUnwind(t) \/ Release(t) \/ Search(t)
Next == (\E t \in Threads : Worker(t)) \/ Collect \/ CollectDone \/ Shutdown \/ Finished
Spec == Init /\ [][Next]_vars
FairSpec == Spec /\ WF_vars(Next) /\ \A t \in Threads : SF_vars(Acquire(t)) /\ WF_vars(Start(t))

\* ------------------------------------------------------------------ properties
\* ensure_cm never runs twice at once, and the lock is held exactly by the worker inside that section
MutualExclusion == Cardinality({ t \in Threads : pc[t] \in {"ensure", "release", "unwind"} }) <= 1
HolderIsInside == holder # 0 => pc[holder] \in {"ensure", "release", "unwind"}
InsideHolds == \A t \in Threads : pc[t] \in {"ensure", "release", "unwind"} => holder = t
\* nobody searches before the model is in place
SearchNeedsModel == \A t \in Threads : pc[t] \in {"search", "done"} => cmReady
\* the program's answer: entries in input order up to the first failing one; exit status tells which
PrintedInOrder == /\ \A k \in 1..Len(printed) : printed[k] = k
                  /\ (main = "exit_ok" => Len(printed) = N /\ fails = {})
                  /\ (main = "exit_err" => fails # {} /\ Len(printed) + 1 = CHOOSE f \in fails : \A g \in fails : f <= g)
\* the program ends, whatever fails (checked as absence of deadlock and as a liveness property under fairness)
NoWaiterBehindDeadHolder == ~\E t \in Threads : pc[t] = "start" /\ holder # 0 /\ Terminal(holder)
Terminates == <>Exited
=============================================================================
