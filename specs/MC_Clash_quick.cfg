SPECIFICATION Spec
CONSTANT NAtoms = 3
CONSTANT MTypes = {"C", "P", "X"}
CONSTANT MOccs = {100, 50, 0}
CONSTANT MGaps = {100, 200}
CONSTANT MNuc1 = {TRUE}
CONSTANT OccDefault = "none_only"
CONSTANT ChainFoldReads = "chain_map"
CONSTANT CsvMetadataArg = "file"
CONSTANT MaxRadiusOver = "all"
INVARIANT InvSearchRadiusCovers
INVARIANT InvKDTreeComplete
INVARIANT InvClashSetExact
INVARIANT InvEachPairOnce
INVARIANT InvResidueOfAtom
INVARIANT InvResidueMaxima
INVARIANT InvChainMaxima
INVARIANT InvCsvListsSame
CHECK_DEADLOCK FALSE
