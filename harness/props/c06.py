"""C06 - 3D-to-2D mapping gives a valid matching and faithful text for any pair list."""
import json
from concurrent.futures import ThreadPoolExecutor

from .. import lib, mapping2d as m2

PID = "C06"
TIERS = {
    # "tiny" is a development tier (python -c "from harness.props import c06; c06.run('tiny')"), not reachable from ./check
    "tiny":     dict(gen="tiny", mc=["MC_Mapping2D_q2.cfg"], mc_any="MC_Mapping2D_any.cfg", per_structure=2, annot_max_nuc=30),
    "quick":    dict(gen="quick", mc=["MC_Mapping2D_q1.cfg", "MC_Mapping2D_q2.cfg"], mc_any="MC_Mapping2D_any.cfg",
                     per_structure=12, annot_max_nuc=80),
    "thorough": dict(gen="thorough", mc=["MC_Mapping2D_t.cfg", "MC_Mapping2D_q2.cfg"], mc_any="MC_Mapping2D_t_any.cfg",
                     per_structure=300, annot_max_nuc=100000),
}
BATCH = 24000
ACTIONS = ("LiftStep", "FilterCanonical", "ResolveOneConflict", "NumberStep", "WritePairs", "SliceStrands",
           "Render", "ExtPlace", "ExtRender")


def domain_check(cases, tier, sc):
    """TLC (Gen_Mapping2D in mode "check") confirms the recorded L/S inputs are exactly its domain."""
    f = sc.path("domain.json")
    with open(f, "w") as fh:
        json.dump({"items": [c["dom"] for c in cases if c["fam"] in ("L", "S")]}, fh)
    cfg = sc.path("Gen_Mapping2D_check.cfg")
    with open(cfg, "w") as fh:
        fh.write(f'CONSTANT Tier = "{tier}"\nCONSTANT Mode = "check"\n')
    r = lib.tlc("Gen_Mapping2D", cfg, workers=1, env={"TRACE_FILE": f}, scratch=sc, xmx="8g", tag="domain")
    nl = sum(1 for c in cases if c["fam"] == "L")
    ns = sum(1 for c in cases if c["fam"] == "S")
    if '<<"DOMAIN", TRUE, %d, %d>>' % (nl, ns) not in r["out"]:
        raise lib.MachineryError("recorded inputs are not the spec's exhaustive domain:\n" + r["out"][-1500:])


class _WithStruct(dict):
    """cases by id; a failing case is written to its replay file together with its structure record"""

    def __init__(self, recs, inputs, structs):
        super().__init__({c["id"]: c for c in recs})
        self.inputs = {c["id"]: c for c in inputs}
        self.structs = structs

    def get(self, cid, default=None):
        c = super().get(cid, default)
        if c is None:
            return default
        c = dict(c)
        c["_struct"] = self.structs[c["sid"] - 1]
        c["_refmode"] = self.inputs[cid].get("refmode", "both")
        return c


def run(tier):
    import time
    t = TIERS[tier]
    rep = lib.Report(PID, tier, "model_checking")
    with lib.Scratch("c06") as sc:
        # design-level model checks run beside the recording (they do not depend on the code under test)
        ex = ThreadPoolExecutor(max_workers=8)
        w = max(2, lib.NCPU // 4)
        jobs = [(cfg, None) for cfg in t["mc"]] + [(t["mc_any"], None),
                                                   ("MC_Mapping2D_neg_each.cfg", "InvExtEncodesEachOnce"),
                                                   ("MC_Mapping2D_neg_bal.cfg", "InvExtRowsBalancedLen")]
        futs = [ex.submit(lib.mc, "MC_Mapping2D", cfg, sc, expect_violation=v, workers=w) for cfg, v in jobs]

        tm, t0 = {}, time.time()
        fcorpus = ex.submit(m2.corpus_structs)          # parses the corpus while TLC enumerates the domain
        structs, cases = m2.gen_cases(t["gen"], sc)
        tm["gen_s"] = round(time.time() - t0, 1)
        cstructs = fcorpus.result()
        ccases = m2.corpus_cases(cstructs, len(structs) + 1, t["per_structure"], lib.seed())
        ccases = [c for c in ccases if c["fam"] != "A"
                  or sum(1 for r in cstructs[c["sid"] - len(structs) - 1]["res"] if r["nuc"]) <= t["annot_max_nuc"]]
        structs = structs + cstructs
        allc = cases + ccases
        tm["corpus_s"] = round(time.time() - t0 - tm["gen_s"], 1)
        fdomain = ex.submit(domain_check, cases, t["gen"], sc)   # TLC re-checks the domain beside the recording

        # record and validate in batches (bounded memory); every batch carries the structure table
        tm["record_s"] = tm["trace_s"] = 0.0
        seen, via, samples, nrec = set(), {}, [], 0
        for lo in range(0, len(allc), BATCH):
            part = allc[lo:lo + BATCH]
            t1 = time.time()
            rec = m2.record_all(structs, part)
            tm["record_s"] = round(tm["record_s"] + time.time() - t1, 1)
            t1 = time.time()
            res = lib.trace_validate("Trace_Mapping2D", "Trace_Mapping2D.cfg", rec, sc, extra_doc={"structs": structs},
                                     chunks=lib.NCPU)
            tm["trace_s"] = round(tm["trace_s"] + time.time() - t1, 1)
            rep.add_trace(res, _WithStruct(rec, part, structs), "C06")
            nrec += len(rec)
            for c in rec:
                via[c["via"]] = via.get(c["via"], 0) + 1
                if _multiplet(c["entries"]):
                    seen.add((c["sid"], c["gaps"], json.dumps(c["entries"], sort_keys=True)))
            if lo == 0:
                samples += [c for c in rec if c["fam"] == "L" and len(c["entries"]) == 3][:1] \
                    + [c for c in rec if c["fam"] == "S"][-1:]
            samples += [c for c in rec if c["fam"] == "R" and 3 < len(c["entries"]) < 9
                        and len(c["bpseq"]["entries"]) < 30][:1 if len(samples) < 3 else 0]
        if nrec != len(allc):
            raise lib.MachineryError(f"{len(allc)} cases generated but {nrec} recorded")
        fdomain.result()                                 # raises MachineryError if the domain is not the spec's

        for (cfg, v), f in zip(jobs, futs):
            r = f.result()
            if v is None:
                rep.add_mc(r, "Mapping2D3D pipeline (lift, canonical filter, conflict loop, numbering, strands, "
                              "render, extended rows with rows added until every pair is placed) on every entry list; "
                              "C06 clauses + lemmas as invariants" + (" ; ANY conflict resolution" if "any" in cfg else ""),
                           min_actions=ACTIONS)
            else:
                rep.add_mc(r, f"as implemented (two rows per class): must violate {v}", negative_control=True)
        ex.shutdown()

        cov = rep.cov
        cov["timing"] = tm
        nL = sum(1 for c in cases if c["fam"] == "L")
        nS = sum(1 for c in cases if c["fam"] == "S")
        cov["exhaustive"] = True
        cov["families"] = {"L_entry_lists": nL, "S_structure_shapes": nS,
                           "R_random_lists_on_corpus": sum(1 for c in ccases if c["fam"] == "R"),
                           "A_own_annotation_on_corpus": sum(1 for c in ccases if c["fam"] == "A"),
                           "corpus_structures": [s["name"] for s in cstructs]}
        cov["via"] = via
        cov["rule"] = (f"TLC Gen_Mapping2D tier {t['gen']} (domain re-checked by TLC): family L = every entry list of the "
                       "tier's bounds (ordered residue pair x class; duplicates, reversals, multiplets, triangles, one "
                       "absent residue) over a 5-residue 2-chain structure x gap detection, shorter lists also with the "
                       "chain names against the file order; family S = every 3-nucleotide structure shape (chain break, "
                       "numbering step, bond, non-nucleotide position) x gap detection; plus "
                       f"{t['per_structure']} seeded random lists (hubs up to degree 5, all 18 classes) on each of "
                       f"{len(cstructs)} corpus structures and the library's own annotation of them. exhaustive=true refers "
                       "to families L and S. Non-trivial = distinct input (structure, gap flag, entry list) in which some "
                       "nucleotide is named by two different input pairs (counted from the inputs).")
        cov["distinct_nontrivial"] = len(seen)
        cov["samples"] = samples[:3]
        rep.assumptions += [
            "corpus structures: which residues are nucleotides is taken from Residue3D.is_nucleotide (an input fact, not "
            "part of the mapping); O3'-P bonding is re-measured by the harness",
            "entries for the same residue pair and class with different Saenger labels, entries between a residue and "
            "itself, entries over non-nucleotide residues and entry lists mixing label-only and auth-only references are "
            "outside the statement and not generated",
            "G-T cis Watson-Crick pairs are treated as 'canonical or not' (the statement does not say)",
            "where residue identifiers sort against the file order, a row may carry the class seen from either "
            "nucleotide (the statement does not say from which); elsewhere the opening bracket is the first nucleotide",
            "entry lists are kept small enough per class for the MILP encoder (<= 7 pairs per class family)",
        ]
    return rep.finish()


def _multiplet(entries):
    prs = {(min(e["a"], e["b"]), max(e["a"], e["b"])) for e in entries if e["a"] and e["b"]}
    deg = {}
    for a, b in prs:
        deg[a] = deg.get(a, 0) + 1
        deg[b] = deg.get(b, 0) + 1
    return any(v > 1 for v in deg.values())


def replay(doc):
    """Re-record the failing case against the current tree and re-validate it."""
    case = doc.get("case")
    if not case:
        print(doc.get("tlc_output_tail", ""))
        return run("quick")
    rep = lib.Report(PID, "quick", "model_checking", evidence=False)
    with lib.Scratch("c06r") as sc:
        st = doc["case"].get("_struct")
        base = {k: case[k] for k in ("id", "fam", "gaps", "via") if k in case}
        base["sid"] = 1
        base["entries"] = case.get("entries", [])
        base["refmode"] = case.get("_refmode", "both")
        if st["kind"] == "corpus":
            st = m2.project_structure(m2.load_corpus(st["name"]), st["name"])
        rec = m2.finish(st, m2.record(base, st))
        res = lib.trace_validate("Trace_Mapping2D", "Trace_Mapping2D.cfg", [rec], sc, extra_doc={"structs": [st]}, chunks=1)
        rep.add_trace(res, _WithStruct([rec], [base], [st]), "C06")
        rep.cov["samples"] = [rec]
        rep.cov["distinct_nontrivial"] = 1
    return rep.finish()
