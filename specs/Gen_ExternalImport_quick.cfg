CONSTANT GenWraps = {"none"}
CONSTANT GenStackLen = 3
