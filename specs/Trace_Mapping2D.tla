--------------------------- MODULE Trace_Mapping2D ---------------------------
(***************************************************************************)
(* Trace validation for C06.  One TLC state per recorded case; a case is   *)
(* what the real library returned for one structure + entry list + gap     *)
(* flag through one entry point (Mapping2D3D directly, the external-tool   *)
(* adapter, or the library's own annotation).  Every judgement is made     *)
(* here.                                                                   *)
(*                                                                         *)
(* Doc.structs[sid] = [res |-> residues, chains |-> chain names as chars]  *)
(* case  = [id, fam, sid, gaps, entries, via,                              *)
(*          bpseq  |-> [err, entries <<i, letter, pair>>, imap_called,     *)
(*                      imap <<index, residue>>],                          *)
(*          strands|-> [called, err, list [chain, seq]],                   *)
(*          db     |-> [err, shape, strands [header, seq, dbn]],           *)
(*          all    |-> [called, err, list of db-like records],             *)
(*          ext    |-> [err, shape, blocks [header, seqtag, seq,           *)
(*                                          rows [lw, sep, dbn]]]]         *)
(***************************************************************************)
EXTENDS Mapping2D, Json, IOUtils

Doc     == JsonDeserialize(IOEnv.TRACE_FILE)
Trace   == Doc.cases
Structs == Doc.structs

VARIABLES idx, cnt
vars == <<idx, cnt>>

HdrDb  == << ">", "s", "t", "r", "a", "n", "d", "_" >>
HdrExt == << " ", " ", " ", " " >> \o HdrDb

ChainIdOf(st, name) == IF \E id \in 1..Len(st.chains) : st.chains[id] = name
                       THEN CHOOSE id \in 1..Len(st.chains) : st.chains[id] = name ELSE 0
HeaderChain(st, pre, line) ==
  IF Len(line) >= Len(pre) /\ SubSeq(line, 1, Len(pre)) = pre
  THEN ChainIdOf(st, SubSeq(line, Len(pre) + 1, Len(line))) ELSE 0

\* ------------------------------------------------------------------ input sanity (harness)
InputOK(c) ==
  /\ c.sid \in 1..Len(Structs)
  /\ LET st == Structs[c.sid] IN
     /\ \A k \in 1..Len(st.res) : st.res[k].chain \in 1..Len(st.chains)
     /\ \A k \in 1..Len(c.entries) :
           /\ c.entries[k].a \in 0..Len(st.res) /\ c.entries[k].b \in 0..Len(st.res)
           /\ c.entries[k].lw \in LWSet

\* ------------------------------------------------------------------ BPSEQ
BpseqFail(c, res, nb) ==
  LET E == c.bpseq.entries IN
  IF c.bpseq.err # "" THEN "NoException"
  ELSE IF ~NumberingOK(nb, E) THEN "Numbering"
  ELSE IF c.bpseq.imap_called
          /\ ( \/ SeqSet(c.bpseq.imap) # { <<nb.ridx[k], k>> : k \in { x \in 1..Len(res) : res[x].nuc } }
               \/ Len(c.bpseq.imap) # Cardinality(SeqSet(c.bpseq.imap)) ) THEN "IndexMap"
  ELSE IF ~PairRangeOK(E) THEN "PairRange"
  ELSE IF ~SymmetricOK(E) THEN "Symmetric"
  ELSE IF ~AtMostOnePartnerOK(E) THEN "AtMostOnePartner"
  ELSE IF ~FromCanonicalOK(res, c.entries, nb, E) THEN "FromCanonical"
  ELSE IF ~KeepsUnconflictedOK(res, c.entries, nb, E) THEN "KeepsUnconflicted"
  ELSE "ok"

\* ------------------------------------------------------------------ per-strand text
StrandView(st, pre, recs) ==
  [ s \in 1..Len(recs) |-> [chain |-> HeaderChain(st, pre, recs[s].header), seq |-> recs[s].seq] ]

\* d = [err, shape, strands [header, seq, dbn]]
TextFail(c, st, nb, d) ==
  IF d.err # "" THEN "NoException"
  ELSE IF ~d.shape THEN "TextShape"
  ELSE LET sv     == StrandView(st, HdrDb, d.strands)
           pieces == [ s \in 1..Len(d.strands) |-> d.strands[s].dbn ]
       IN
       IF \E s \in 1..Len(sv) : sv[s].chain = 0 THEN "StrandHeader"
       ELSE IF ~StrandsConcatOK(nb, sv) THEN "StrandsConcat"
       ELSE IF ~StrandChainsOK(st.res, nb, sv) THEN "StrandChains"
       ELSE IF c.strands.called /\ sv # c.strands.list THEN "StrandsAgree"
       ELSE IF ~PiecesFitOK(sv, pieces) THEN "StrandStructLen"
       ELSE IF ~AlphabetOK(Concat(pieces)) THEN "AlphabetOK"
       ELSE LET dd == Decode(Concat(pieces)) IN
            IF ~dd.balanced THEN "StrandsBalanced"
            ELSE IF dd.pairs # BpPairs(c.bpseq.entries) THEN "StrandsDecodeToBpseq"
            ELSE "ok"

StrandsFail(c, st, nb) ==
  IF ~c.strands.called THEN "ok"
  ELSE IF c.strands.err # "" THEN "NoException"
  ELSE IF \E s \in 1..Len(c.strands.list) : c.strands.list[s].chain \notin 1..Len(st.chains) THEN "StrandHeader"
  ELSE IF ~StrandsConcatOK(nb, c.strands.list) THEN "StrandsConcat"
  ELSE IF ~StrandChainsOK(st.res, nb, c.strands.list) THEN "StrandChains"
  ELSE "ok"

AllFail(c, st, nb) ==
  IF ~c.all.called THEN "ok"
  ELSE IF c.all.err # "" THEN "NoException"
  ELSE IF Len(c.all.list) = 0 THEN "AllNonEmpty"
  ELSE LET bad == { k \in 1..Len(c.all.list) : TextFail(c, st, nb, c.all.list[k]) # "ok" } IN
       IF bad = {} THEN "ok" ELSE TextFail(c, st, nb, c.all.list[Min(bad)])

\* ------------------------------------------------------------------ extended dot-bracket
\* the rows over the whole sequence, once the layout is known to be regular
ExtRows(e) ==
  IF Len(e.blocks) = 0 THEN <<>>
  ELSE [ r \in 1..Len(e.blocks[1].rows) |->
           [lw   |-> e.blocks[1].rows[r].lw,
            text |-> Concat([ s \in 1..Len(e.blocks) |-> e.blocks[s].rows[r].dbn ])] ]

ExtLayoutFail(c, st, nb, sv) ==
  LET e == c.ext  B == e.blocks IN
  IF e.err # "" THEN "NoException"
  ELSE IF ~e.shape THEN "ExtShape"
  ELSE IF Len(B) # Len(sv) THEN "ExtBlocks"
  ELSE IF \E s \in 1..Len(B) : \/ HeaderChain(st, HdrExt, B[s].header) # sv[s].chain
                               \/ B[s].seqtag # "seq " \/ B[s].seq # sv[s].seq THEN "ExtHeaderSeq"
  ELSE IF \E s \in 1..Len(B) : \/ Len(B[s].rows) # Len(B[1].rows)
                               \/ \E r \in 1..Len(B[s].rows) :
                                     r <= Len(B[1].rows) /\ ( B[s].rows[r].lw # B[1].rows[r].lw \/ B[s].rows[r].sep # " " )
       THEN "ExtRowLabels"
  ELSE IF \E s \in 1..Len(B) : \E r \in 1..Len(B[s].rows) : Len(B[s].rows[r].dbn) # Len(B[s].seq) THEN "ExtRowLen"
  ELSE IF \E r \in 1..Len(ExtRows(e)) : ~AlphabetOK(ExtRows(e)[r].text) THEN "AlphabetOK"
  ELSE "ok"

ExtFail(c, st, nb, sv) ==
  LET lay == ExtLayoutFail(c, st, nb, sv) IN
  IF lay # "ok" THEN lay
  ELSE LET rows == ExtRows(c.ext) IN
       IF ~ExtRowsBalancedLenOK(Len(nb.seq), rows) THEN "ExtRowsBalancedLen"
       ELSE IF ~ExtEncodesEachOnceOK(st.res, c.entries, nb, rows) THEN "ExtEncodesEachOnce"
       ELSE "ok"

(***************************************************************************)
(* Named deviation ExtRowTwoNotAMatching (P6).  extended_dot_bracket gives *)
(* every class one greedy first row and puts ALL remaining pairs of the    *)
(* class into one second row without checking that they form a matching.   *)
(* When they do not (a nucleotide with three partners in the class, or a   *)
(* triangle), the second row is written through a BPSEQ in which the last  *)
(* writer of a cell wins: pairs are lost and brackets are left unclosed.   *)
(* The deviation explains a case only if, for EVERY class, the recorded    *)
(* rows are exactly what that algorithm produces: rows whose pairs are a   *)
(* matching still encode exactly their pairs; a non-matching second row    *)
(* has exactly the last-writer-wins skeleton.                              *)
(***************************************************************************)
RowPosPairs(ridx, row) ==
  { IF ridx[row[x].a] < ridx[row[x].b] THEN <<ridx[row[x].a], ridx[row[x].b]>> ELSE <<ridx[row[x].b], ridx[row[x].a]>>
      : x \in 1..Len(row) }
ObsTexts(rows, l) == LET ks == { r \in 1..Len(rows) : rows[r].lw = l } IN
                     [ x \in 1..Cardinality(ks) |-> rows[CHOOSE r \in ks : Cardinality({ q \in ks : q <= r }) = x].text ]
ExtRowTwoNotAMatching(c, st, nb) ==
  LET res    == st.res
      n      == Len(nb.seq)
      rows   == ExtRows(c.ext)
      lifted == Lift(res, c.entries)
      RS     == [ l \in LWSet |-> RowsOfClass("two_rows", res, lifted, l) ]
  IN /\ \E l \in LWSet : Len(RS[l]) = 2 /\ ~RowIsMatching(RS[l][2])
     /\ \A r \in 1..Len(rows) : rows[r].lw \in LWSet /\ Len(rows[r].text) = n
     /\ \A l \in LWSet :
          LET obs == ObsTexts(rows, l) IN
          /\ Len(obs) = Len(RS[l])
          /\ \A r \in 1..Len(RS[l]) :
               IF RowIsMatching(RS[l][r])
               THEN TextEncodes(obs[r], RowPosPairs(nb.ridx, RS[l][r]))
               ELSE LET f == LastWriter(n, nb.ridx, RS[l][r]) IN
                    SkeletonOf(obs[r]) = Skeleton(n, f) /\ ClosersTyped(obs[r], f)

\* ------------------------------------------------------------------ verdict
VerdictAsNamed(c) ==
  IF ~InputOK(c) THEN <<"fail", "InputWellFormed", "harness">>
  ELSE LET st == Structs[c.sid]
           nb == Numbering(st.res, c.gaps)
           f1 == BpseqFail(c, st.res, nb) IN
  IF f1 # "ok" THEN <<"fail", f1, "bpseq">>
  ELSE LET f2 == StrandsFail(c, st, nb) IN
  IF f2 # "ok" THEN <<"fail", f2, "strands_sequences">>
  ELSE LET f3 == TextFail(c, st, nb, c.db) IN
  IF f3 # "ok" THEN <<"fail", f3, "dot_bracket">>
  ELSE LET f4 == AllFail(c, st, nb) IN
  IF f4 # "ok" THEN <<"fail", f4, "all_dot_brackets">>
  ELSE LET sv == StrandView(st, HdrDb, c.db.strands)
           f5 == ExtFail(c, st, nb, sv) IN
  IF f5 = "ok" THEN <<"ok">>
  ELSE IF f5 \in {"ExtRowsBalancedLen", "ExtEncodesEachOnce"} /\ ExtRowTwoNotAMatching(c, st, nb)
       THEN <<"deviation", "ExtRowTwoNotAMatching", f5>>
  ELSE <<"fail", f5, "extended_dot_bracket">>

\* Entries that name their first residue with a blank insertion code (c.optional, indices into c.entries): the
\* code may resolve such an identifier to the residue without insertion code it spells, or find no residue for
\* it.  The case is in order if it is in order for SOME such reading; otherwise the verdict of the reading
\* "none of them resolves" is reported.
Optional(c) == IF "optional" \in DOMAIN c THEN { c.optional[k] : k \in 1..Len(c.optional) } ELSE {}
Reading(c, D) == [c EXCEPT !.entries = [k \in 1..Len(c.entries) |->
                                          IF k \in D THEN [c.entries[k] EXCEPT !.a = 0] ELSE c.entries[k]]]
Verdict(c) ==
  IF Optional(c) = {} THEN VerdictAsNamed(c)
  ELSE IF \E D \in SUBSET Optional(c) : VerdictAsNamed(Reading(c, D))[1] = "ok" THEN <<"ok">>
  ELSE VerdictAsNamed(Reading(c, Optional(c)))

\* is the case non-trivial? (some nucleotide is named by two different input pairs)
Multiplet(c) ==
  InputOK(c) /\ LET DP == DistinctPairs(Structs[c.sid].res, c.entries) IN
                \E t \in DP : \E u \in DP : t # u /\ Share(t, u)

Init == idx = 0 /\ cnt = [ok |-> 0, deviation |-> 0, fail |-> 0, multiplet |-> 0]

Next ==
  /\ idx < Len(Trace)
  /\ idx' = idx + 1
  /\ LET c == Trace[idx']  v == Verdict(c) IN
     /\ cnt' = [cnt EXCEPT ![v[1]] = @ + 1, !.multiplet = @ + (IF Multiplet(c) THEN 1 ELSE 0)]
     /\ (v[1] = "ok" \/ PrintT(<<"V", c.id>> \o v))
  /\ (idx' < Len(Trace) \/ PrintT(<<"SUMMARY", Len(Trace), cnt'.ok, cnt'.deviation, cnt'.fail, cnt'.multiplet>>))

Spec == Init /\ [][Next]_vars
=============================================================================
