SPECIFICATION Spec
CONSTANT NAtoms = 3
CONSTANT MTypes = {"C"}
CONSTANT MOccs = {100, 0}
CONSTANT MGaps = {100}
CONSTANT MNuc1 = {TRUE}
CONSTANT MLastFixed = FALSE
CONSTANT MMidRes = {2}
CONSTANT OccDefault = "none_only"
CONSTANT ChainFoldReads = "residue_map"
CONSTANT CsvMetadataArg = "file"
CONSTANT MaxRadiusOver = "all"
INVARIANT InvChainMaxima
CHECK_DEADLOCK FALSE
