"""C12 - secondary-structure objects are pure: queries and derivations never change them."""
from .. import lib, bpseqobject as bo, secstruct as ss

PID = "C12"
TIERS = {
    "quick":    dict(mc="MC_BpSeqObject_2.cfg", depth=2, rnd=300, rlen=6, structs=40),
    "thorough": dict(mc="MC_BpSeqObject.cfg", depth=3, rnd=20000, rlen=8, structs=64),
}


def structs(count, seed):
    import random
    rng = random.Random(seed * 53 + 1)
    out = [{"n": 0, "pairs": []}, {"n": 5, "pairs": []}, {"n": 3, "pairs": [[1, 3]]},
           {"n": 8, "pairs": [[1, 8], [2, 7], [4, 5]]}, {"n": 14, "pairs": [[1, 8], [2, 7], [5, 12], [6, 11], [3, 14]]},
           {"n": 16, "pairs": [[1, 6], [2, 5], [4, 10], [8, 14], [9, 13], [12, 16]]},
           {"n": 12, "pairs": [[1, 5], [3, 8], [6, 11], [9, 12]]},
           # five and six mutually crossing stems: the notation needs the letter brackets (orders >= 4)
           {"n": 12, "pairs": [[1, 7], [2, 8], [3, 9], [4, 10], [5, 11]]},
           {"n": 21, "pairs": [[1, 12], [2, 11], [3, 14], [5, 16], [7, 18], [8, 17], [9, 20], [10, 21]]},
           {"n": 14, "pairs": [[1, 8], [2, 9], [3, 10], [4, 11], [5, 12], [6, 13]]}]
    while len(out) < count:
        n = rng.randint(6, 30)
        pairs = ss.random_structure(rng, n, ladder=rng.choice([0, 0, 2, 3]), stems=rng.randint(1, 6), maxlen=rng.randint(1, 3))
        if ss.max_component(pairs)[0] <= 6 and ss.max_component(pairs)[1] <= 800:
            out.append({"n": n, "pairs": pairs})
    for k, s in enumerate(out):
        s["seq"] = [ss.LETTERS[(i * 3 + k) % 4] for i in range(s["n"])]
        if k % 3 == 2:
            # letters beyond ACGU: the gap placeholder '?' of the 3D->2D mapping, modified-residue and IUPAC codes
            s["seq"] = [("?", "I", "X", "n", "P", "N")[(i + k) % 6] if i % 3 == 0 else x for i, x in enumerate(s["seq"])]
    return out[:count]


def run(tier):
    t = TIERS[tier]
    rep = lib.Report(PID, tier, "model_checking")
    with lib.Scratch("c12") as sc:
        r = lib.mc("MC_BpSeqObject", t["mc"], sc, timeout=3000)
        rep.add_mc(r, "every interleaving of the 9 public queries/derivations on every live object (heap of Entry cells, "
                      "pairs dict, cached_property slots), 6-structure palette; FramePurity (action property), "
                      "TextIsOriginal, AnswerStability incl. removal semantics, CachesFresh", min_actions=("Next",))
        nc = lib.mc("MC_BpSeqObject", "MC_BpSeqObject_Aliasing.cfg", sc, expect_violation="TextIsOriginal")
        rep.add_mc(nc, "negative control: without_isolated that copies the entry LIST and unpairs the shared Entry cells "
                       "(the code before the repair) changes the receiver's text", negative_control=True)
        gen = bo.gen_histories(t["depth"], 3, sc)
        st = structs(t["structs"], lib.seed())
        rnd = bo.random_histories(t["rnd"], t["rlen"], lib.seed(), st)
        cases = gen + rnd
        # every second history runs after the process has solved an unrelated sibling object (same pairs, other
        # sequence and length): answers must not depend on what happened to other objects before
        for k, c in enumerate(cases):
            c["prelude"] = (k % 2 == 1)
        rec = lib.pmap(bo.record_history, cases)
        res = lib.trace_validate("Trace_BpSeqObject", "Trace_BpSeqObject.cfg", rec, sc)
        rep.add_trace(res, {c["id"]: c for c in rec}, "C12")
        cov = rep.cov
        cov["exhaustive"] = True
        cov["steps_validated"] = res.get("extra", [0])[0]
        cov["rule"] = (f"spec->code: every call history of exactly {t['depth']} calls enabled in the Required model over "
                       f"9 methods x all live objects on the 6-structure palette ({len(gen)} histories, enumerated by TLC "
                       f"Gen_BpSeqObject) + {len(rnd)} seeded random histories of {t['rlen']} calls over {len(st)} structures "
                       "(n<=30). code->spec: after every call the answer, the fresh-copy answer and the text/pairs/sequence of "
                       "ALL live objects are validated by Trace_BpSeqObject. Non-trivial = distinct history containing at "
                       "least one derivation (without_isolated / without_pseudoknots) followed by a later call.")

        def nontrivial(c):
            ops = [op for _, op in c["calls"]]
            return any(op.startswith("without_") for op in ops[:-1])
        cov["distinct_nontrivial"] = len({(tuple(map(tuple, c["pairs"])), tuple(map(tuple, c["calls"]))) for c in cases if nontrivial(c)})
        cov["samples"] = [{"id": c["id"], "pairs": c["pairs"], "calls": c["calls"],
                           "last_event": {k: c["events"][-1][k] for k in ("op", "recv", "ans", "new", "caches")}}
                          for c in (rec[len(gen) // 2], rec[-1])]
        rep.assumptions += ["object identity of the value returned by a derivation is not prescribed (Reconcile); only "
                            "observable answers are", "cache population is read from obj.__dict__ (no source hooks)"]
    return rep.finish()


def replay(doc):
    case = doc.get("case")
    if not case:
        print(doc.get("tlc_output_tail", ""))
        return run("quick")
    rep = lib.Report(PID, "quick", "model_checking", evidence=False)
    with lib.Scratch("c12r") as sc:
        rec = bo.record_history({k: case[k] for k in ("id", "n", "pairs", "seq", "calls", "prelude") if k in case})
        res = lib.trace_validate("Trace_BpSeqObject", "Trace_BpSeqObject.cfg", [rec], sc, chunks=1)
        rep.add_trace(res, {rec["id"]: rec}, "C12")
    return rep.finish()
