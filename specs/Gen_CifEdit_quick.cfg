CONSTANT MaxItems = 2
CONSTANT MaxRows = 2
CONSTANT PalN = 6
