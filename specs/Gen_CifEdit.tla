---------------------------- MODULE Gen_CifEdit ----------------------------
(***************************************************************************)
(* Generation mode (spec -> code): TLC enumerates the bounded input domain *)
(* of C20 and writes it as NDJSON for the harness to materialise.          *)
(*                                                                         *)
(* A document has a key-value category "kv" (one row), a loop category     *)
(* "lp" and, for every other shape, a second loop category "ot".  The      *)
(* target category (kv or lp) has n <= MaxItems items a,b,c and up to      *)
(* MaxRows rows; the column the operation reads ranges over EVERY sequence *)
(* of the first PalN palette values (plain, quoted with a space, multi-word*)
(* with both quote characters, "?", ".", numeric), all other cells get a   *)
(* fixed filler pattern over the whole palette.  Operations: copy from/to over a,b,c,d (d never exists; *)
(* items beyond n are absent sources / new targets), replace over a,b,c,d  *)
(* with three alphabets (one of them permutes existing values), and every  *)
(* operation on an absent category.                                        *)
(***************************************************************************)
EXTENDS CifEdit, Json, IOUtils, TLC, SequencesExt

CONSTANTS MaxItems, MaxRows, PalN

Pal == << "A", "B", "x y", "it's a \"q\" w", "?", ".", "1.50" >>
P   == { Pal[i] : i \in 1..PalN }
ItemNames == << "a", "b", "c", "d" >>
OpItems == { ItemNames[i] : i \in 1..(MaxItems + 1) }
Alphas == { <<"X", "Y", "Z">>, <<"B", "A", "C">>, <<"0", "?", "'">> }
ItemIdx(a) == CHOOSE i \in 1..4 : ItemNames[i] = a

Filler(k, j) == Pal[((2 * k + 3 * j) % 7) + 1]

\* category with n items; column s carries S, the rest filler
MkCat(name, n, S, s) ==
  [name |-> name, attrs |-> SubSeq(ItemNames, 1, n),
   rows |-> [k \in 1..Len(S) |-> [j \in 1..n |-> IF j = s THEN S[k] ELSE Filler(k, j)]]]
FillCat(name, n, r) == MkCat(name, n, [k \in 1..r |-> Filler(k, 1)], 1)
Other == [name |-> "ot", attrs |-> <<"k", "v">>, rows |-> << <<"1", "it's">>, <<"2", "two words">> >>]

OpsFor(cat) ==
  { [kind |-> "copy", cat |-> cat, from |-> f, to |-> t, alpha |-> <<>>] : f \in OpItems, t \in OpItems }
  \cup { [kind |-> "replace", cat |-> cat, from |-> i, to |-> i, alpha |-> al] : i \in OpItems, al \in Alphas }

DocOf(tgt, n, S, o) ==
  LET s  == IF ItemIdx(o.from) <= n THEN ItemIdx(o.from) ELSE 1
      kv == IF tgt = "kv" THEN MkCat("kv", n, S, s) ELSE FillCat("kv", 2, 1)
      lp == IF tgt = "lp" THEN MkCat("lp", n, S, s) ELSE FillCat("lp", 2, 2) IN
  [block |-> "gen", nblocks |-> 1,
   cats |-> <<kv, lp>> \o (IF (n + Len(S)) % 2 = 0 THEN <<Other>> ELSE <<>>)]

RowChoices(tgt) == IF tgt = "kv" THEN {1} ELSE 1..MaxRows

Present ==
  UNION { UNION { UNION { { [op |-> o, in |-> DocOf(tgt, n, S, o)] : o \in OpsFor(tgt) }
                          : S \in UNION { [1..r -> P] : r \in RowChoices(tgt) } }
                  : n \in 1..MaxItems }
          : tgt \in {"kv", "lp"} }
Absent == { [op |-> o, in |-> DocOf("none", 2, <<"A">>, o)] : o \in OpsFor("zz") }
AllCases == Present \cup Absent

\* the same domain as a sequence, built without normalising one big set (fast to write out)
ShapeSeq == SetToSeq(UNION { UNION { { <<tgt, n, S>> : S \in UNION { [1..r -> P] : r \in RowChoices(tgt) } }
                                     : n \in 1..MaxItems } : tgt \in {"kv", "lp"} })
OpsSeq(cat) == SetToSeq(OpsFor(cat))
CaseSeq ==
  FlattenSeq([i \in 1..Len(ShapeSeq) |->
                LET sh == ShapeSeq[i]  os == OpsSeq(sh[1]) IN
                [j \in 1..Len(os) |-> [op |-> os[j], in |-> DocOf(sh[1], sh[2], sh[3], os[j])]]])
  \o SetToSeq(Absent)

Mode == IF "MODE" \in DOMAIN IOEnv THEN IOEnv.MODE ELSE "gen"

\* MODE=gen: write the domain.  MODE=domain: check that the recorded inputs (TRACE_FILE:
\* {"items":[{"op":..,"in":..},..]}) are exactly this domain (the SET AllCases), each case once.
Items == JsonDeserialize(IOEnv.TRACE_FILE).items
DomainOK == /\ { Items[i] : i \in DOMAIN Items } = AllCases
            /\ Len(Items) = Cardinality(AllCases)
ASSUME IF Mode = "gen"
       THEN /\ ndJsonSerialize(IOEnv.OUT_FILE, CaseSeq)
            /\ PrintT(<<"GENERATED", Len(CaseSeq)>>)
       ELSE PrintT(<<"DOMAIN", DomainOK, Len(Items)>>)
=============================================================================
