SPECIFICATION Spec
CONSTANT Assignment = "Required"
CONSTANT MaxChain = 4
INVARIANT SameAcrossRuns
INVARIANT CleanIsFunction
INVARIANT SameMembers
INVARIANT Lemmas
CHECK_DEADLOCK FALSE
