SPECIFICATION Spec
CONSTANT Part = "stack"
CONSTANT NRes = 2
CONSTANT MaxLabels = 1
CONSTANT MaxCount = 1
CONSTANT MaxO2 = 0
CONSTANT O2Twice = TRUE
CONSTANT StackFlagsFull = "full"
INVARIANT StackSound
INVARIANT StackLabel
INVARIANT StackOrdered
INVARIANT StackOnce
INVARIANT StackComplete
INVARIANT TableLaws
CHECK_DEADLOCK FALSE
