------------------------------- MODULE Bracket -------------------------------
(***************************************************************************)
(* Dot-bracket text as a sequence of 1-character strings, the 30 bracket   *)
(* types, and the stack-machine decoder.  Nothing here is taken from the   *)
(* implementation: the alphabet is the one the property statement names    *)
(* ("the 30 bracket types": four ASCII bracket pairs plus A/a .. Z/z).     *)
(***************************************************************************)
EXTENDS Naturals, Integers, Sequences, FiniteSets, Folds, SequencesExt, FiniteSetsExt

Opening == << "(", "[", "{", "<",
              "A","B","C","D","E","F","G","H","I","J","K","L","M",
              "N","O","P","Q","R","S","T","U","V","W","X","Y","Z" >>
Closing == << ")", "]", "}", ">",
              "a","b","c","d","e","f","g","h","i","j","k","l","m",
              "n","o","p","q","r","s","t","u","v","w","x","y","z" >>
NTypes  == 30
Dot     == "."

OpenSet  == { Opening[k] : k \in 1..NTypes }
CloseSet == { Closing[k] : k \in 1..NTypes }
Alphabet == OpenSet \cup CloseSet \cup {Dot}

IsOpen(c)  == c \in OpenSet
IsClose(c) == c \in CloseSet
\* bracket type 1..30 of a bracket character (level = type - 1)
TypeMap    == [c \in OpenSet \cup CloseSet |-> CHOOSE k \in 1..NTypes : Opening[k] = c \/ Closing[k] = c]
TypeOf(c)  == TypeMap[c]
LevelOf(c) == TypeOf(c) - 1

AlphabetOK(db) == \A i \in 1..Len(db) : db[i] \in Alphabet

(***************************************************************************)
(* Decoder state: one stack per type, the set of pairs found, an error     *)
(* flag raised by a close on an empty stack or by a foreign character.     *)
(***************************************************************************)
EmptyStacks == [k \in 1..NTypes |-> <<>>]
DecInit     == [stacks |-> EmptyStacks, pairs |-> {}, err |-> FALSE]

DecStep(st, db, i) ==
  LET c == db[i] IN
  IF c = Dot THEN st
  ELSE IF IsOpen(c) THEN
         [st EXCEPT !.stacks[TypeOf(c)] = Append(@, i)]
  ELSE IF IsClose(c) THEN
         LET k == TypeOf(c) IN
         IF st.stacks[k] = <<>> THEN [st EXCEPT !.err = TRUE]
         ELSE [st EXCEPT !.pairs  = @ \cup { <<Last(st.stacks[k]), i>> },
                         !.stacks[k] = Front(@)]
  ELSE [st EXCEPT !.err = TRUE]

RECURSIVE DecRun(_, _, _)
DecRun(st, db, i) == IF i > Len(db) THEN st ELSE DecRun(DecStep(st, db, i), db, i + 1)

Decode(db) ==
  LET st == DecRun(DecInit, db, 1) IN
  [ pairs    |-> st.pairs,
    balanced |-> ~st.err /\ \A k \in 1..NTypes : st.stacks[k] = <<>> ]

\* level (0..29) of the pair <<i,j>> as written in db
PairLevel(db, p) == LevelOf(db[p[1]])

\* two pairs cross (pseudoknot relation); pairs are <<i,j>> with i < j
CrossP(p, q) == (p[1] < q[1] /\ q[1] < p[2] /\ p[2] < q[2])
             \/ (q[1] < p[1] /\ p[1] < q[2] /\ q[2] < p[2])

\* no two crossing pairs share a bracket type
NoCrossSameType(db, pairs) ==
  \A p \in pairs : \A q \in pairs :
     CrossP(p, q) => PairLevel(db, p) # PairLevel(db, q)

\* each pair's two ends carry the open and the close of one type
EndsMatch(db, pairs) ==
  \A p \in pairs : IsOpen(db[p[1]]) /\ IsClose(db[p[2]]) /\ TypeOf(db[p[1]]) = TypeOf(db[p[2]])

\* text with every non-round bracket replaced by a dot
RoundOnly(db) == [i \in 1..Len(db) |-> IF db[i] \in {"(", ")"} THEN db[i] ELSE Dot]

=============================================================================
