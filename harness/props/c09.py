"""C09 - PDB/mmCIF write-read round trips preserve every atom field."""
import json

from .. import lib, pdbtext as pt

PID = "C09"
TIERS = {
    "quick":    dict(mc="MC_PdbText_4.cfg", tables=280, split=40, batch=100000),
    "thorough": dict(mc="MC_PdbText_5.cfg", tables=8000, split=1000, batch=4000),
}
LEVEL = "model_checking"


def _cases(tables, paths, seed):
    # a blank chain identifier exists only in PDB text: such tables take the PDB -> PDB paths only
    def ok(t, p):
        return "cif" not in p or all(a["chain"] != "" for a in t["atoms"])
    return [{"id": f"{t['tid']}:{p}", "tid": t["tid"], "path": p, "atoms": t["atoms"], "seed": seed}
            for t in tables for p in paths if ok(t, p)]


MC_RUNS = (
    # (cfg or tier key, expect_violation, negative_control, what)
    ("mc", None, False,
     "write_pdb record machine (EmitModel/EmitAtom/EmitTer/EmitEndmdl/EmitEnd) + write_cif/parse_cif/parse_pdb on the 4 "
     "paths over all small tables and value shapes; Layout80, ModelBracketing, TerAfterEveryChain, strict grammar, "
     "read-back and FieldIdentity as invariants (Required variants)"),
    ("MC_PdbText_asimpl_ter.cfg", "InvTerAfterEveryChain", True,
     "as implemented: no TER before the ENDMDL of a model that is followed by another model"),
    ("MC_PdbText_asimpl_ter_exact.cfg", None, False,
     "as implemented writer: the deviation NoTerBeforeEndmdl (OnlyModelChangeLacksTer) describes its output exactly"),
    ("MC_PdbText_asimpl_charge.cfg", "InvFieldIdentity", True,
     "as implemented: write_cif copies the PDB charge text, the integer-typed column reads it as NA"),
    ("MC_PdbText_asimpl_charge_exact.cfg", None, False,
     "as implemented write_cif: the deviation ChargeLostOnCrossPath describes the cross paths exactly"),
    ("MC_PdbText_blank.cfg", None, False,
     "tables whose second chain has a BLANK identifier (PDB -> PDB path): the TER record keeps its chain column"),
    ("MC_PdbText_asimpl_terblank.cfg", "InvLayout80", True,
     "as first implemented: the TER record of a blank chain is written without its chain column (repaired in c549bbf)"),
)
ACTIONS = ("EmitModel", "EmitAtom", "EmitTer", "EmitEndmdl", "EmitEnd", "ReadPdb", "WriteCif", "ReadCif", "Finish")


def _model_checks(t, sc):
    """All design-level model checks, concurrently (each is its own TLC process)."""
    from concurrent.futures import ThreadPoolExecutor
    w = max(2, lib.NCPU // 4)

    def one(spec):
        cfg, expect, _neg, _what = spec
        return lib.mc("MC_PdbText", t["mc"] if cfg == "mc" else cfg, sc, expect_violation=expect, workers=w)
    with ThreadPoolExecutor(max_workers=len(MC_RUNS)) as ex:
        return list(ex.map(one, MC_RUNS))


def run(tier):
    from concurrent.futures import ThreadPoolExecutor
    t = TIERS[tier]
    rep = lib.Report(PID, tier, LEVEL)
    with lib.Scratch("c09") as sc:
        K = pt.constants(sc)
        pt.CONSTS = K
        tables = pt.gen_tables(t["tables"], lib.seed(), K)
        multi = [x for x in tables if len({a["model"] for a in x["atoms"]}) > 1]
        # the splitter decides with can_write_pdb whether a table has to be fitted first: tables that end exactly
        # at the serial limit go through it whatever their position in the list
        atlimit = [x for x in multi if max(a["serial"] for a in x["atoms"]) == K["serial_max"]]
        multi = atlimit + [x for x in multi if x not in atlimit][:max(0, t["split"] - len(atlimit))]
        cases = _cases(tables, pt.PATHS, lib.seed()) + _cases(multi, pt.SPLITS, lib.seed())
        texts = lines = 0
        samples = []
        with ThreadPoolExecutor(max_workers=1) as bg:         # model checks run beside the trace validation
            fut = None
            for b in range(0, len(cases), t["batch"]):        # bounded memory: record + validate batch by batch
                rec = lib.pmap(pt.record, cases[b:b + t["batch"]])
                if fut is None:                               # (started after the first fork pool is done)
                    fut = bg.submit(_model_checks, t, sc)
                res = lib.trace_validate("Trace_PdbText", "Trace_PdbText.cfg", rec, sc,
                                         chunks=max(1, min(lib.NCPU, len(rec) // 130)))
                rep.add_trace(res, {c["id"]: c for c in rec}, "C09")
                texts += sum(len(c["texts"]) for c in rec)
                lines += sum(len(x["lines"]) for c in rec for x in c["texts"])
                if b == 0:
                    samples = [_brief(c) for c in rec[:2]] + [_brief(c) for c in rec[-1:]]
            mcs = fut.result()
        for spec, r in zip(MC_RUNS, mcs):
            rep.add_mc(r, spec[3], negative_control=spec[2], min_actions=() if spec[2] else ACTIONS)

        cov = rep.cov
        cp, tp = pt.pair_coverage(tables, K)
        cov["exhaustive"] = False
        cov["rule"] = (f"{len(tables)} seeded random atom tables drawn from the value-shape palettes exported by the spec "
                       "(Gen_PdbText: 14 atom-name/element kinds incl. primes, leading digits, 4-character names and 2-letter "
                       "elements; charges; alt-locs; insertion codes; residue numbers -999..9999; coordinates "
                       "-999.999..9999.999; 1-3 models; 1-3 chains) x 4 library paths, plus splitter.main on "
                       f"{len(multi)} multi-model tables x 4 format combinations. Non-trivial = distinct table "
                       "with >= 2 chains or >= 2 models AND at least one hard value shape (4-character or digit-leading name, "
                       "2-letter element, charge, alt-loc, insertion code, negative number or coordinate, coordinate >= 1000).")
        cov["distinct_nontrivial"] = len({json.dumps(x["atoms"], sort_keys=True) for x in tables
                                          if pt.is_nontrivial(x["atoms"])})
        cov["value_shape_pairs_covered"] = [cp, tp]
        cov["pdb_texts_checked"] = texts
        cov["pdb_lines_checked"] = lines
        cov["samples"] = samples
        if cp < tp:
            raise lib.MachineryError(f"value-shape pair coverage incomplete: {cp}/{tp}")
        rep.assumptions += [
            "the harness's own PDB and mmCIF emitters are faithful (checked on every case by clause InputFaithful: the frame "
            "read from the emitted text must equal the abstract table)",
            "projection of data frames to JSON (text as character lists, coordinates rounded to milli-units, occupancy/B to "
            "centi-units, NA as empty) is faithful",
            "only tables whose values fit the PDB field widths (incl. the TER serial) are generated; mmCIF layout is never "
            "compared, only parsed values; data frames are obtained by the real readers from emitted text, not built by hand",
        ]
    return rep.finish()


def _brief(c):
    return {"id": c["id"], "path": c["path"], "err": c["err"],
            "atoms": [{k: ("".join(v) if isinstance(v, list) else v) for k, v in a.items()} for a in c["atoms"][:3]],
            "first_pdb_lines": ["".join(l) for t in c["texts"][:1] for l in t["lines"][:4]]}


def replay(doc):
    case = doc.get("case")
    if not case:
        print(doc.get("tlc_output_tail", ""))
        return run("quick")
    rep = lib.Report(PID, "quick", LEVEL, evidence=False)
    with lib.Scratch("c09r") as sc:
        pt.CONSTS = pt.constants(sc)
        atoms = [{k: ("".join(v) if isinstance(v, list) else v) for k, v in a.items()} for a in case["atoms"]]
        rec = pt.record({"id": case["id"], "tid": case["tid"], "path": case["path"], "atoms": atoms, "seed": lib.seed()})
        res = lib.trace_validate("Trace_PdbText", "Trace_PdbText.cfg", [rec], sc, chunks=1)
        rep.add_trace(res, {rec["id"]: rec}, "C09")
        rep.cov["samples"] = [_brief(rec)]
        rep.cov["distinct_nontrivial"] = 1
    return rep.finish()
