CONSTANT MaxN = 6
