--------------------------- MODULE MC_BpSeqObject ---------------------------
(***************************************************************************)
(* Histories: every interleaving of the nine public queries/derivations on *)
(* every live object, starting from each structure of a small palette.     *)
(* FramePurity is an action property over ALL live objects; the answer     *)
(* clauses compare each answer with what a fresh copy of the object's       *)
(* original text would give.  Aliasing = TRUE is the code before the        *)
(* repair and must violate FramePurity (negative control).                  *)
(***************************************************************************)
EXTENDS BpSeqObject

CONSTANTS N, MaxObjs, Aliasing
VARIABLES st,        \* heap + objects
          orig,      \* orig[o] = pair column of object o at its creation
          optOf,     \* optOf[o] = the optimal text the solver returned for o (None before)
          last       \* last call: [op, recv, ans, new]
vars == <<st, orig, optOf, last>>

\* palette: nested with an isolated pair, H-type pseudoknot with an isolated pair, pk-free, empty
Palette == { {<<1, 8>>, <<2, 7>>, <<4, 5>>},
             {<<1, 6>>, <<2, 5>>, <<4, 8>>},
             {<<1, 5>>, <<3, 7>>, <<6, 8>>},
             {<<1, 4>>, <<5, 8>>},
             {<<1, 8>>, <<2, 7>>, <<3, 6>>},
             {} }

Init == /\ \E m \in Palette : st = InitState(ColOf(m, N)) /\ orig = << ColOf(m, N) >>
        /\ optOf = << None >> /\ last = [op |-> "init", recv |-> 0, ans |-> 0, new |-> 0]

\* the environment (solver) may return ANY optimal text the first time it is asked
OptChoices(o) ==
  IF optOf[o] # None THEN {optOf[o][1]}
  ELSE LET m == M(st, o)  R == Regions(m) IN { Fill(N, R, f) : f \in OptimalSet(R) }
NeedsDb(op) == op \in {"dot_bracket", "elements", "without_pseudoknots", "without_isolated"}

Call(o, op) ==
  /\ (op \in {"without_pseudoknots", "without_isolated"} => Len(st.objs) < MaxObjs)
  /\ \E optdb \in OptChoices(o) :
       LET r == Do(st, op, o, optdb, Aliasing) IN
       /\ st' = r.st
       /\ last' = [op |-> op, recv |-> o, ans |-> r.ans, new |-> r.new]
       /\ IF r.new > Len(st.objs)
          THEN orig' = Append(orig, r.ans) /\ optOf' = Append(IF NeedsDb(op) THEN [optOf EXCEPT ![o] = Some(optdb)] ELSE optOf, None)
          ELSE orig' = orig /\ optOf' = IF NeedsDb(op) THEN [optOf EXCEPT ![o] = Some(optdb)] ELSE optOf

Next == \E o \in 1..Len(st.objs) : \E op \in Ops : Call(o, op)
Spec == Init /\ [][Next]_vars

\* ---- properties ---------------------------------------------------------------
\* no call changes the text or the pairs of any object that exists
FramePurity == [][\A o \in 1..Len(st.objs) : Col(st, o)' = Col(st, o) /\ st.objs[o].pairsAttr' = st.objs[o].pairsAttr]_vars
\* every object always shows its original text and the matching pairs dictionary
TextIsOriginal == \A o \in 1..Len(st.objs) : Col(st, o) = orig[o] /\ st.objs[o].pairsAttr = BothWays(MatchingOfCol(orig[o]))
\* every answer is the answer of a fresh copy of the receiver's original text
AnswerStability ==
  last.op \in Ops =>
    FreshAnswerOK(last.op, orig[last.recv], last.ans,
                  IF optOf[last.recv] = None THEN <<>> ELSE optOf[last.recv][1])
\* removal semantics, stated on the returned object
RemovalSemantics ==
  /\ last.op = "without_pseudoknots" => MatchingOfCol(last.ans) = RoundPairs(optOf[last.recv][1])
  /\ last.op = "without_isolated"    => MatchingOfCol(last.ans) = LongStemPairs(MatchingOfCol(orig[last.recv]))
\* cached answers never go stale: a cached value equals what would be computed now
CachesFresh == \A o \in 1..Len(st.objs) :
  /\ st.objs[o].fcfs # None => st.objs[o].fcfs[1] = FcfsText(M(st, o), N)
  /\ st.objs[o].all # None  => st.objs[o].all[1] = AllTexts(M(st, o), N)
  /\ st.objs[o].el # None   => st.objs[o].el[1] = ElementsOf(M(st, o))
  /\ st.objs[o].db # None   => IsOptimalText(st.objs[o].db[1], M(st, o), N)
=============================================================================
