#!/bin/bash
# thorough tier of every check, one after the other (hours)
for p in C01 C02 C03 C04 C05 C06 C07 C08 C09 C10 C11 C12 C13 C14 C15 C16 C17 C18 C19 C20 X02 X03 X04 X05; do
  t0=$(date +%s)
  out=$(./check $p --tier thorough 2>&1 | grep -v "^WARN")
  echo "$(echo "$out" | tail -1 | cut -c1-170) [$(( $(date +%s) - t0 )) s]"
  echo "$out" | grep -E "^VIOLATION|MACHINERY|Traceback" | head -3
done
