"""X04 - beyond the listed properties: rnapolis.metareader (main, read_metadata, list_metadata) - categories of an
mmCIF file as JSON and CSV.  Steps of main() as a state machine: specs/Metareader.tla (TLC over every small world);
recorded runs: Trace_Metareader."""
from .. import lib, metareader as sp, atomtable as at

PID = "X04"
TIERS = {"quick": dict(n=600, cfg="MC_Metareader.cfg"), "thorough": dict(n=8000, cfg="MC_Metareader_4.cfg")}
ACTIONS = ("ParseArgs", "Open", "ListNames", "ReadOne", "PrintJson", "WriteCsv", "CsvDone")


def run(tier):
    t = TIERS[tier]
    rep = lib.Report(PID, tier, "model_checking")
    with lib.Scratch(PID.lower()) as sc:
        at.set_tmpdir(sc.path("files"))
        r = lib.mc("Metareader", t["cfg"], sc)
        rep.add_mc(r, "the steps of metareader.main on every small world (every subset of 3 categories present, every "
                      "sequence of <= 3 (thorough 4) -c values over those names and an absent one, listing or not, CSV "
                      "directory or not): the steps compute the function (InvResult, InvPrinted, InvCsv), listing "
                      "writes nothing, an absent category is empty, keys are distinct", min_actions=ACTIONS)
        r = lib.mc("Metareader", "MC_Metareader_neg_default.cfg", sc, expect_violation="InvOnlyWhatWasGiven")
        rep.add_mc(r, "negative control (design weakness, not a defect against a listed property): the default "
                      "category `struct` cannot be deselected", negative_control=True)
        cases = sp.cases(t["n"], lib.seed())
        rec = lib.pmap(sp.record, cases)
        res = lib.trace_validate("Trace_Metareader", "Trace_Metareader.cfg", rec, sc)
        rep.add_trace(res, {c["id"]: c for c in rec}, "X04")
        cov = rep.cov
        cov["exhaustive"] = False
        cov["rule"] = (f"{len(cases)} generated mmCIF documents (0-4 categories of 1-4 items and 1-5 rows, one-row "
                       "categories as item-value pairs or loops, 16 layout styles, values that look like nulls / "
                       "numbers / booleans / CIF keywords, quotes, commas, a line break; sometimes a second data "
                       "block) run through metareader.main in-process (plain, --csv-directory, -l, both) or through "
                       "read_metadata + list_metadata; 0-3 -c values incl. absent names, `struct` itself and "
                       "repetitions.  Non-trivial = a run that returned rows for >= 1 category.")
        cov["distinct_nontrivial"] = sum(1 for c in rec if any(k[1] for k in c["result"]))
        cov["runs_listing"] = sum(1 for c in rec if c["list"])
        cov["runs_with_csv"] = sum(1 for c in rec if c["csv"])
        s = dict(rec[0])
        s["doc"] = s["doc"][:2]
        cov["samples"] = [s]
        rep.assumptions += [
            "the document the tool is given is what the harness's own mmCIF emitter (harness/cifedit.py, shared with "
            "C20) wrote; values are compared as texts",
            "CSV cells are compared by shape (header = items, one line per row); their text goes through pandas' "
            "quoting and is not compared cell by cell",
            "this area lies beyond the 20 listed properties: it is not claimed in MANIFEST.json",
        ]
    return rep.finish()


def replay(doc):
    case = doc.get("case")
    if not case:
        print(doc.get("tlc_output_tail", ""))
        return run("quick")
    rep = lib.Report(PID, "quick", "model_checking", evidence=False)
    with lib.Scratch("x03r") as sc:
        at.set_tmpdir(sc.path("files"))
        n = int(case["id"][1:])
        rec = sp.record(sp.cases(n + 1, lib.seed())[n])
        res = lib.trace_validate("Trace_Metareader", "Trace_Metareader.cfg", [rec], sc, chunks=1)
        rep.add_trace(res, {rec["id"]: rec}, "X04")
        rep.cov["samples"] = [{"id": rec["id"]}]
        rep.cov["distinct_nontrivial"] = 1
    return rep.finish()
