"""Case generation, materialisation and recording for the PDB/mmCIF text family (C09).

The harness only (1) draws abstract atom tables from the value-shape palettes EXPORTED BY THE
SPEC (Gen_PdbText), (2) emits them as PDB / mmCIF text with its own emitters (the PDB emitter is
driven by the spec's layout table, never by the repository), (3) pushes them through the public
functions of rnapolis.parser_v2 / splitter.main, (4) projects every data frame and every written
PDB line into small JSON values.  No judgement happens here."""
import contextlib
import io
import json
import math
import os
import random
import sys
import warnings

from . import lib

CONSTS = None              # set by the property driver before recording (inherited by forked workers)
BAD = -2000000000          # PdbText!BadNum: "not a number" sentinel (no JSON null)
PATHS = ("pdb-pdb", "cif-cif", "pdb-cif-pdb", "cif-pdb-cif")
SPLITS = ("split:pdb:keep", "split:pdb:cif", "split:cif:keep", "split:cif:pdb")


# ----------------------------------------------------------------------------- constants from the spec

def _s(chars):
    return "".join(chars)


def constants(scratch, module="Gen_PdbText"):
    """Run the generation-mode spec and load the exported layout tables and palettes."""
    out = scratch.path(f"{module}.json")
    r = lib.tlc(module, "Empty.cfg", workers=1, env={"OUT_FILE": out}, scratch=scratch, xmx="1g", tag="gen")
    if not r["ok"] or not os.path.exists(out):
        raise lib.MachineryError(f"{module} failed:\n" + r["out"][-2000:])
    with open(out) as f:
        k = json.load(f)
    os.remove(out)
    return k


# ----------------------------------------------------------------------------- abstract tables

def fixed(n, d):
    """integer in units of 10^-d -> fixed-point text (integer arithmetic only)."""
    a = abs(n)
    return ("-" if n < 0 else "") + f"{a // 10 ** d}.{a % 10 ** d:0{d}d}"


def _pick(rng, pal, p_first=0.0):
    if p_first and rng.random() < p_first:
        return pal[0]
    return rng.choice(pal)


def gen_table(rng, K):
    """One abstract atom table: 1-3 models, 1-3 chains (optionally revisiting the first chain),
    1-2 residues per chain, 1-3 atoms per residue, every field drawn from the spec's palettes."""
    nm = rng.choice([1, 1, 2, 2, 3])
    scheme = rng.random()
    if scheme < 0.52:
        models = list(range(1, nm + 1))
    elif scheme < 0.6:
        models = list(range(0, nm))          # numbering that starts at 0 (trajectory frames, some NMR depositions)
    elif scheme < 0.9:
        models = sorted(rng.sample(range(1, 40), nm))
    else:
        models = sorted(rng.sample([1, 2, 10, 100, 999, 1000, K["model_max"]], nm))
    nc = rng.choice([1, 2, 2, 3])
    pool = [_s(c) for c in K["chains"]]
    chains = rng.sample([c for c in pool if c != ""], nc)
    if "" in pool and rng.random() < 0.12:
        chains[rng.randrange(nc)] = ""          # a blank chain identifier (PDB-only tables, see props/c09._cases)
    if nc >= 2 and rng.random() < 0.15:
        chains = chains + [chains[0]]           # A B A (hetero atoms of chain A at the end)
    replicate = rng.random() < 0.5

    def coord():
        if rng.random() < 0.5:
            return rng.choice(K["coords"])
        return rng.randint(K["coord_min"], K["coord_max"]) if rng.random() < 0.3 else rng.randint(-99999, 99999)

    def one_model():
        atoms = []
        for ch in chains:
            used = set()
            for _ in range(rng.choice([1, 1, 2])):
                for _try in range(20):
                    rs = rng.choice(K["resnums"]) if rng.random() < 0.6 else rng.randint(-999, 9999)
                    ic = _s(_pick(rng, K["icodes"], 0.6))
                    if (rs, ic) not in used:
                        break
                used.add((rs, ic))
                resn = _s(rng.choice(K["resnames"]))
                for _ in range(rng.choice([1, 2, 3])):
                    kd = rng.choice(K["atom_kinds"])
                    name, elem = _s(kd[0]), _s(kd[1])
                    hetero = len(elem) == 2 or rng.random() < 0.1
                    atoms.append({
                        "rec": "HETATM" if hetero else "ATOM", "name": name, "elem": elem,
                        "alt": _s(_pick(rng, K["alts"], 0.6)), "resn": elem if len(elem) == 2 and rng.random() < 0.7 else resn,
                        "chain": ch, "resseq": rs, "icode": ic,
                        "x": coord(), "y": coord(), "z": coord(),
                        "occ": rng.choice(K["occs"]) if rng.random() < 0.7 else rng.randint(0, 100),
                        "b": rng.choice(K["bs"]) if rng.random() < 0.7 else rng.randint(0, 99999),
                        "charge": _pick(rng, K["charges"], 0.5)})
        return atoms

    first = one_model()
    table = []
    for m in models:
        if replicate or m == models[0]:
            atoms = [dict(a) for a in first]
            if m != models[0]:
                for a in atoms:
                    a["x"], a["y"], a["z"] = coord(), coord(), coord()
        else:
            atoms = one_model()
        for a in atoms:
            a["model"] = m
        table.append(atoms)
    if rng.random() < 0.4:
        # mmCIF numbers the residues of a chain 1..n in label_seq_id whatever the author's numbers (negative, with
        # insertion codes, ...) are: in two of five tables the two numbers differ
        for atoms in table:
            seen = {}
            for a in atoms:
                key = (a["chain"], a["resseq"], a["icode"])
                if key not in seen:
                    seen[key] = 1 + sum(1 for k2 in seen if k2[0] == a["chain"])
                a["lseq"] = seen[key]
    # serial numbers (the TER after a chain takes one number in schemes 0 and 1)
    n = sum(len(t) for t in table)
    sch = rng.choice([0, 0, 1, 2, 3, 4])
    if sch == 3:
        serial = K["serial_max"] - n - 3 * len(chains) * len(models) - rng.randint(0, 5)
    else:
        serial = 0
    for atoms in table:
        if sch == 0:
            serial = 0
        last = None
        for a in atoms:
            if sch in (0, 1, 3, 4) and last is not None and a["chain"] != last:
                serial += 1
            serial += 1 if sch != 2 else rng.randint(1, 7)
            a["serial"] = serial
            last = a["chain"]
        serial += 1
    if sch == 4:
        # the table ends exactly at the limit: last atom serial_max (99998), its TER takes 99999
        shift = K["serial_max"] - max(a["serial"] for atoms in table for a in atoms)
        for atoms in table:
            for a in atoms:
                a["serial"] += shift
    return [a for atoms in table for a in atoms]


def gen_tables(count, seed, K, tag="t"):
    rng = random.Random(seed * 1009 + 9)
    return [{"tid": f"{tag}{seed}-{k}", "atoms": gen_table(rng, K)} for k in range(count)]


def is_nontrivial(atoms):
    """>= 2 chains or >= 2 models AND at least one hard value shape."""
    multi = len({a["model"] for a in atoms}) > 1 or len({a["chain"] for a in atoms}) > 1
    hard = any(len(a["name"]) == 4 or a["name"][0].isdigit() or len(a["elem"]) == 2 or a["charge"] != 0
               or a["alt"] or a["icode"] or a["resseq"] < 0 or min(a["x"], a["y"], a["z"]) < 0
               or max(a["x"], a["y"], a["z"]) >= 1000000 for a in atoms)
    return multi and hard


def pair_coverage(tables, K):
    """Measured pairwise coverage of the per-atom value-shape dimensions: (covered, possible)."""
    dims = {"kind": [(_s(k[0]), _s(k[1])) for k in K["atom_kinds"]], "charge": list(K["charges"]),
            "alt": [_s(x) for x in K["alts"]], "icode": [_s(x) for x in K["icodes"]], "rec": ["ATOM", "HETATM"]}

    def possible(p, x, q, y):       # two-letter elements are always generated as HETATM
        return not (p == "kind" and q == "rec" and len(x[1]) == 2 and y == "ATOM")
    names = sorted(dims)
    want = {(p, x, q, y) for i, p in enumerate(names) for q in names[i + 1:] for x in dims[p] for y in dims[q]
            if possible(p, x, q, y)}
    seen = set()
    for t in tables:
        for a in t["atoms"]:
            v = {"kind": (a["name"], a["elem"]), "charge": a["charge"], "alt": a["alt"], "icode": a["icode"],
                 "rec": a["rec"]}
            for i, p in enumerate(names):
                for q in names[i + 1:]:
                    seen.add((p, v[p], q, v[q]))
    return len(seen & want), len(want)


# ----------------------------------------------------------------------------- own emitters

def _name_field(name, elem):
    """PDB convention: element symbol right-justified in columns 13-14."""
    if len(name) >= 4 or name[:1].isdigit() or len(elem) == 2:
        return name.ljust(4)
    return (" " + name).ljust(4)


def pdb_charge(q):
    return "" if q == 0 else f"{abs(q)}{'+' if q > 0 else '-'}"


def emit_pdb(atoms, K, rng):
    """Own PDB emitter, driven by the spec's layout table."""
    lay = K["atom_layout"]
    width = K["line_width"]

    def put(buf, cols, text, just):
        a, b = cols[0], cols[1]
        w = b - a + 1
        t = text.rjust(w) if just == "right" else text.ljust(w)
        if len(t) != w:
            raise lib.MachineryError(f"value {text!r} does not fit columns {a}-{b}")
        buf[a - 1:b] = list(t)

    def atom_line(a):
        buf = [" "] * width
        vals = {"rec": a["rec"], "serial": str(a["serial"]), "alt": a["alt"], "resn": a["resn"], "chain": a["chain"],
                "resseq": str(a["resseq"]), "icode": a["icode"], "x": fixed(a["x"], 3), "y": fixed(a["y"], 3),
                "z": fixed(a["z"], 3), "occ": fixed(a["occ"], 2), "b": fixed(a["b"], 2), "elem": a["elem"],
                "charge": pdb_charge(a["charge"])}
        for f, (c0, c1, just) in lay.items():
            if f == "name":
                put(buf, (c0, c1), _name_field(a["name"], a["elem"]), "left")
            else:
                put(buf, (c0, c1), vals[f], just)
        return "".join(buf)

    def ter_line(serial, a):
        buf = [" "] * width
        tl = K["ter_layout"]
        for f, text in (("rec", "TER"), ("serial", str(serial)), ("resn", a["resn"]), ("chain", a["chain"]),
                        ("resseq", str(a["resseq"])), ("icode", a["icode"])):
            put(buf, tl[f][:2], text, tl[f][2])
        return "".join(buf)

    models = []
    for a in atoms:
        if not models or models[-1][0] != a["model"]:
            models.append((a["model"], []))
        models[-1][1].append(a)
    lines = ["HEADER    RNA                                     01-JAN-00   XXXX",
             "REMARK   2 RESOLUTION.    2.00 ANGSTROMS."]
    if rng.random() < 0.5:
        lines.append("CRYST1   50.000   60.000   70.000  90.00  90.00  90.00 P 1           1")
    bare = len(models) == 1 and models[0][0] == 1 and rng.random() < 0.5     # no MODEL record: model 1
    ml = K["model_layout"]["serial"]
    for m, rows in models:
        if not bare:
            buf = list("MODEL".ljust(ml[1]))
            buf[ml[0] - 1:ml[1]] = list(str(m).rjust(ml[1] - ml[0] + 1))
            lines.append("".join(buf).ljust(width) if rng.random() < 0.5 else "".join(buf))
        for k, a in enumerate(rows):
            lines.append(atom_line(a))
            if k + 1 == len(rows) or rows[k + 1]["chain"] != a["chain"]:
                lines.append(ter_line(a["serial"] + 1, a))
        if not bare:
            lines.append("ENDMDL".ljust(width) if rng.random() < 0.5 else "ENDMDL")
    lines.append("END")
    return "\n".join(lines) + "\n"


def _cif_token(v):
    if v == "":
        raise lib.MachineryError("empty mmCIF token")
    plain = not any(ch in v for ch in " \t'\"") and v[0] not in "_#$[];" and v.lower() not in ("loop_", "stop_", "global_") \
        and not v.lower().startswith(("data_", "save_"))
    if plain:
        return v
    if '"' not in v:
        return '"' + v + '"'
    if "'" not in v:
        return "'" + v + "'"
    raise lib.MachineryError(f"cannot quote {v!r}")


CIF_COLUMNS = ["group_PDB", "id", "type_symbol", "label_atom_id", "label_alt_id", "label_comp_id", "label_asym_id",
               "label_entity_id", "label_seq_id", "pdbx_PDB_ins_code", "Cartn_x", "Cartn_y", "Cartn_z", "occupancy",
               "B_iso_or_equiv", "pdbx_formal_charge", "auth_seq_id", "auth_comp_id", "auth_asym_id", "auth_atom_id",
               "pdbx_PDB_model_num"]


def cif_row(a, rng, chain=None, resseq=None, serial=None):
    na = lambda: rng.choice(["?", "."])    # noqa: E731  both markers mean "absent"
    ch = a["chain"] if chain is None else chain
    rs = a["resseq"] if resseq is None else resseq
    return {"group_PDB": a["rec"], "id": str(a["serial"] if serial is None else serial), "type_symbol": a["elem"],
            "label_atom_id": a.get("lname", a["name"]), "label_alt_id": a["alt"] or na(),
            "label_comp_id": a.get("lresn", a["resn"]),
            "label_asym_id": ch, "label_entity_id": "1", "label_seq_id": str(a.get("lseq", rs)),
            "pdbx_PDB_ins_code": a["icode"] or na(), "Cartn_x": fixed(a["x"], 3), "Cartn_y": fixed(a["y"], 3),
            "Cartn_z": fixed(a["z"], 3), "occupancy": fixed(a["occ"], 2), "B_iso_or_equiv": fixed(a["b"], 2),
            "pdbx_formal_charge": str(a["charge"]) if a["charge"] else na(), "auth_seq_id": str(rs),
            "auth_comp_id": a["resn"], "auth_asym_id": ch, "auth_atom_id": a["name"],
            "pdbx_PDB_model_num": str(a["model"])}


def emit_cif_rows(rows, rng, columns=None):
    """Own mmCIF emitter (one loop_ for atom_site, a few unrelated items around it)."""
    cols = list(columns or CIF_COLUMNS)
    out = ["data_VERIF", "#", "_entry.id   VERIF", "#"]
    if rng.random() < 0.5:
        out += ["loop_", "_struct_asym.id", "_struct_asym.entity_id", "A 1", "B 1", "#"]
    out.append("loop_")
    out += ["_atom_site." + c for c in cols]
    for r in rows:
        out.append(" ".join(_cif_token(r[c]) for c in cols))
    out.append("#")
    return "\n".join(out) + "\n"


def emit_cif(atoms, rng):
    return emit_cif_rows([cif_row(a, rng) for a in atoms], rng)


# ----------------------------------------------------------------------------- projection

def chars(v):
    return list(str(v))


def _isna(v):
    try:
        import pandas as pd
        return bool(pd.isna(v))
    except (TypeError, ValueError):
        return False


def opt(v):
    if v is None or _isna(v):
        return []
    return list(str(v))


def num(v):
    if v is None or _isna(v):
        return BAD
    try:
        f = float(v)
    except (TypeError, ValueError):
        return BAD
    if not math.isfinite(f) or f != int(f) or abs(f) >= 2 ** 31 - 1:
        return BAD
    return int(f)


def scaled(v, scale):
    if v is None or _isna(v):
        return BAD
    try:
        f = float(v) * scale
    except (TypeError, ValueError):
        return BAD
    if not math.isfinite(f) or abs(f) >= 2 ** 31 - 1:
        return BAD
    return int(round(f))


def charge_chars(v):
    """charge cell of a frame as text: PDB category "1+"; mmCIF Int64 1 -> "1"."""
    if v is None or _isna(v):
        return []
    if isinstance(v, float) and v == int(v):
        v = int(v)
    return list(str(v))


def project(df):
    """Data frame -> [fmt, rows] in the vocabulary of PdbText (text = list of characters,
    coordinates in milli-units, occupancy / B in centi-units, absent = empty list)."""
    fmt = df.attrs.get("format")
    rows = []
    if fmt == "PDB":
        for _, r in df.iterrows():
            rows.append({"rec": opt(r.get("record_type")), "serial": num(r.get("serial")), "name": opt(r.get("name")),
                         "alt": opt(r.get("altLoc")), "resn": opt(r.get("resName")), "chain": opt(r.get("chainID")),
                         "resseq": num(r.get("resSeq")), "icode": opt(r.get("iCode")),
                         "x": scaled(r.get("x"), 1000), "y": scaled(r.get("y"), 1000), "z": scaled(r.get("z"), 1000),
                         "occ": scaled(r.get("occupancy"), 100), "b": scaled(r.get("tempFactor"), 100),
                         "elem": opt(r.get("element")), "charge": charge_chars(r.get("charge")),
                         "model": num(r.get("model"))})
        return {"fmt": "pdb", "rows": rows}
    if fmt == "mmCIF":
        for _, r in df.iterrows():
            rows.append({"rec": opt(r.get("group_PDB")), "serial": num(r.get("id")),
                         "name": opt(r.get("auth_atom_id", r.get("label_atom_id"))),
                         "alt": opt(r.get("label_alt_id")),
                         "resn": opt(r.get("auth_comp_id", r.get("label_comp_id"))),
                         "chain": opt(r.get("auth_asym_id", r.get("label_asym_id"))),
                         "resseq": num(r.get("auth_seq_id", r.get("label_seq_id"))),
                         "icode": opt(r.get("pdbx_PDB_ins_code")),
                         "x": scaled(r.get("Cartn_x"), 1000), "y": scaled(r.get("Cartn_y"), 1000),
                         "z": scaled(r.get("Cartn_z"), 1000),
                         "occ": scaled(r.get("occupancy"), 100), "b": scaled(r.get("B_iso_or_equiv"), 100),
                         "elem": opt(r.get("type_symbol")), "charge": charge_chars(r.get("pdbx_formal_charge")),
                         "model": num(r.get("pdbx_PDB_model_num")),
                         "lname": opt(r.get("label_atom_id")), "lresn": opt(r.get("label_comp_id")),
                         "lchain": opt(r.get("label_asym_id")), "lseq": num(r.get("label_seq_id"))})
        return {"fmt": "cif", "rows": rows}
    # what the code under test returned is data, not a harness failure: the recorder logs it as an error of
    # the step that produced the frame and the trace spec decides
    raise UnprojectableFrame(f"frame without a known format attribute: {fmt!r}")


class UnprojectableFrame(Exception):
    """A frame returned by the code under test that has no known format (e.g. an empty frame without attrs)."""


def text_lines(text):
    return [list(line) for line in text.splitlines()]


def abstract_json(atoms):
    out = []
    for a in atoms:
        d = {k: (list(v) if isinstance(v, str) else v) for k, v in a.items()}
        out.append(d)
    return out


# ----------------------------------------------------------------------------- recording (real code)

def record(case):
    """Push one table through one path of the real code.  case = {id, tid, path, atoms, seed}."""
    from rnapolis import parser_v2 as p2
    warnings.simplefilter("ignore")          # pandas FutureWarnings of the code under test are not data
    K = CONSTS
    rng = random.Random(f"{case['seed']}/{case['tid']}/{case['path']}")
    c = {"id": case["id"], "tid": case["tid"], "path": case["path"], "atoms": abstract_json(case["atoms"]),
         "frames": [], "texts": [], "err": "", "errstep": ""}
    path = case["path"]
    step = "emit"
    try:
        if path.startswith("split:"):
            return _record_split(case, c, rng)
        infmt = path.split("-")[0]
        text = emit_pdb(case["atoms"], K, rng) if infmt == "pdb" else emit_cif(case["atoms"], rng)
        step = "parse_" + infmt
        df = p2.parse_pdb_atoms(text) if infmt == "pdb" else p2.parse_cif_atoms(text)
        c["frames"].append(project(df))
        for fmt in path.split("-")[1:]:
            step = "write_" + fmt
            if fmt == "pdb" and rng.random() < 0.34:
                df = _written_before(p2, df)
            if fmt == "pdb":
                out = p2.write_pdb(df)
                c["texts"].append({"src": len(c["frames"]), "model": -1, "lines": text_lines(out)})
                step = "parse_pdb"
                df = p2.parse_pdb_atoms(out)
            else:
                out = p2.write_cif(df)
                step = "parse_cif"
                df = p2.parse_cif_atoms(out)
            c["frames"].append(project(df))
    except lib.MachineryError:
        raise
    except Exception as e:          # the error path is data
        c["err"], c["errstep"] = type(e).__name__, step
    return c


def _written_before(p2, df):
    """Environment action: the frame handed to write_pdb has a history - a same-shape frame with another x
    coordinate was written, then given the values of `df` (whatever a writer remembers in the frame or its attrs
    travels along).  On a writer without memory the result equals `df`."""
    num = [col for col in df.columns if getattr(df[col].dtype, "kind", "") == "f"]
    if not num:
        return df
    sib = df.copy()
    try:
        sib[num[0]] = sib[num[0]] + 1.0
        p2.write_pdb(sib)
    except Exception:          # the prelude's own trouble (a coordinate that no longer fits its columns) is not data
        return df
    for col in df.columns:
        sib[col] = df[col]
    return sib


def _record_split(case, c, rng):
    """splitter.main on a multi-model file; the per-model outputs are read back and concatenated."""
    import tempfile

    import pandas as pd
    from rnapolis import parser_v2 as p2
    from rnapolis import splitter
    K = CONSTS
    _, infmt, outfmt = case["path"].split(":")
    step = "emit"
    with tempfile.TemporaryDirectory(prefix="verif-c09-split-") as d:
        try:
            text = emit_pdb(case["atoms"], K, rng) if infmt == "pdb" else emit_cif(case["atoms"], rng)
            src = os.path.join(d, "in." + ("pdb" if infmt == "pdb" else "cif"))
            with open(src, "w") as f:
                f.write(text)
            step = "parse_" + infmt
            df = p2.parse_pdb_atoms(text) if infmt == "pdb" else p2.parse_cif_atoms(text)
            c["frames"].append(project(df))
            step = "splitter.main"
            outdir = os.path.join(d, "out")
            argv = sys.argv
            sys.argv = ["splitter", "-o", outdir, "-f", {"keep": "keep", "pdb": "PDB", "cif": "mmCIF"}[outfmt], src]
            so, se = io.StringIO(), io.StringIO()
            try:
                with contextlib.redirect_stdout(so), contextlib.redirect_stderr(se):
                    try:
                        splitter.main()
                    except SystemExit as e:
                        if e.code not in (0, None):
                            c["err"], c["errstep"] = "SystemExit", step
                            return c
            finally:
                sys.argv = argv
            if "Error" in se.getvalue():
                # the tool reports a swallowed exception on stderr
                c["err"], c["errstep"] = "ToolReportedError", step
                return c
            final_fmt = infmt if outfmt == "keep" else outfmt
            models = []
            for a in case["atoms"]:
                if a["model"] not in models:
                    models.append(a["model"])
            parts = []
            step = "read_outputs"
            for m in models:
                fn = os.path.join(outdir, f"in_model_{m}." + ("pdb" if final_fmt == "pdb" else "cif"))
                with open(fn) as f:
                    t = f.read()
                if final_fmt == "pdb":
                    c["texts"].append({"src": 1, "model": m, "lines": text_lines(t)})
                    parts.append(p2.parse_pdb_atoms(t))
                else:
                    parts.append(p2.parse_cif_atoms(t))
            extra = sorted(set(os.listdir(outdir)) - {f"in_model_{m}." + ("pdb" if final_fmt == "pdb" else "cif") for m in models})
            if extra:
                c["err"], c["errstep"] = "UnexpectedOutputFile", step
                return c
            whole = pd.concat(parts, ignore_index=True)
            whole.attrs["format"] = parts[0].attrs["format"]
            c["frames"].append(project(whole))
        except lib.MachineryError:
            raise
        except Exception as e:
            c["err"], c["errstep"] = type(e).__name__, step
    return c
